#!/bin/bash
# Must-pass corpus: harmless edits of the repository (renamed locals, reordered independent statements, extracted helper,
# reworded message, equivalent expression) under /verif/mustpass/<name>/patch.diff. Each is applied to a scratch worktree
# (outside /repo and /verif, removed afterwards); the check of its property must NOT report a violation (exit 0).
# usage: mustpass.sh [name...]
set -u
VERIF="$(cd "$(dirname "$0")/.." && pwd)"
SCR=$(mktemp -d /tmp/mustpass-XXXXXX)
git -C /repo worktree add --detach "$SCR/wt" HEAD >/dev/null 2>&1 || { echo "cannot create worktree"; exit 2; }
trap 'git -C /repo worktree remove --force "$SCR/wt" >/dev/null 2>&1; rm -rf "$SCR"' EXIT
names=("$@")
[ ${#names[@]} -eq 0 ] && names=($(ls "$VERIF/mustpass"))
fail=0
for n in "${names[@]}"; do
  d="$VERIF/mustpass/$n"
  prop=$(python3 -c "import json;print(json.load(open('$d/meta.json'))['property'])")
  (cd "$SCR/wt" && git checkout -q -- . && git clean -fdq)
  if ! (cd "$SCR/wt" && git apply "$d/patch.diff" 2>/dev/null); then echo "$n: PATCH DOES NOT APPLY"; fail=1; continue; fi
  out=$(VERIF_EVIDENCE_DIR="$SCR/ev" VERIF_REPLAY_DIR="$SCR/rp" "$VERIF/bin/check" "$prop" --repo "$SCR/wt" 2>&1); rc=$?
  nv=$(echo "$out" | grep -c '^VIOLATION')
  if [ $rc -eq 0 ] && [ $nv -eq 0 ]; then
    echo "$n: QUIET (check $prop exit 0) $(echo "$out" | grep -o 'inapplicable=[0-9]*' | head -1)"
  else
    echo "$n: FALSE ALARM from check $prop (exit $rc): $(echo "$out" | grep '^VIOLATION' | head -3 | sed 's/replay=[^ ]* //' | cut -c1-200 | tr '\n' '|')"; fail=1
  fi
done
exit $fail
