#!/usr/bin/env python3
"""Print the prompt given to a mutation sub-agent for one property (property text + worktree only)."""
import json, sys
pid, wt = sys.argv[1], sys.argv[2]
for l in open('/verif/properties.jsonl'):
    p = json.loads(l)
    if p['id'] == pid:
        break
else:
    sys.exit('no such property')
import glob, os
taken=[]
for d in sorted(glob.glob('/verif/seeded/*/meta.json')):
    m=json.load(open(d))
    if m.get('property')==pid and m.get('change'):
        taken.append('  - '+m['change'])
avoid=''
if taken and '--no-avoid' not in sys.argv:
    avoid='\n\nChanges that earlier testers already made for this property (do something DIFFERENT - another function, another mechanism):\n'+'\n'.join(taken)+'\n'
print(f"""You are testing how robust a Go library is against subtle regressions. You work ONLY inside the git worktree {wt} (a checkout of the repository openfga/language: ANTLR grammar, DSL<->JSON transformers, module merging, weighted type graph; the Go code is in {wt}/pkg/go). Do not touch /repo or /verif, and do not read anything under /verif.

Every Go command needs this environment (the sandbox is offline): 
  export GOFLAGS=-mod=mod GOPROXY=off GOSUMDB=off GOTOOLCHAIN=local
Run the existing test suite with:  cd {wt}/pkg/go && go test -vet=off -count=1 ./...

Here is a semantic property of the library that is supposed to hold for ALL inputs:

TITLE: {p['title']}
STATEMENT: {p['statement']}
QUANTIFIED OVER: {p['quantifier']['text']}
RELEVANT FILES: {', '.join(p['anchors']['files'])}

Your task: make ONE small, realistic change to the non-test Go source under {wt}/pkg/go (the kind of slip a maintainer could plausibly make in a refactoring, optimisation or 'cleanup' - not sabotage, not a syntax trick) such that
  (1) the code still compiles and the ENTIRE existing test suite still passes, unedited;
  (2) the property above is now violated for some input;
  (3) the violation needs something specific to manifest - an unusual input shape, a multi-step sequence, a particular map-iteration order, two sites that each look fine alone - not something ordinary use exposes immediately.
Do not edit test files, generated parser files (pkg/go/gen), go.mod or anything outside pkg/go. Keep the change to a few lines. The change must make behaviour WORSE relative to the property than the unchanged code: first check that your demonstration passes on the UNCHANGED code (the unchanged code has some pre-existing bugs; pick a behaviour that is correct before your change).

{avoid}
Do not read the git history of the worktree (git log / git show); work from the source as it is.

Deliver, inside {wt}:
  - the change itself left applied in the working tree (uncommitted), and also saved as {wt}/patch.diff (output of `git diff -- pkg/go`, made before adding the demo file);
  - a demonstration: a new Go test file {wt}/pkg/go/<package>/zz_demo_test.go (package-internal or external test, your choice) with a test named TestDemo{pid} that FAILS with your change and PASSES without it (verify both; to remove/restore your source change use `git apply -R patch.diff` / `git apply patch.diff` - NEVER use `git stash`, the stash is shared with other worktrees of the same repository). It must be deterministic or loop enough times to fail reliably (>99%) when the change is present and never fail without it;
  - a short note {wt}/NOTE.md: what you changed, why existing tests miss it, what input/sequence is needed to manifest it.
Finish by reporting: the diff, the test name/command, and outputs of the demo run with and without the change. Do not commit anything.""")
