#!/usr/bin/env python3
"""Rewrite the obligation counts of the status table in DESIGN.md section 0.5 from the evidence files."""
import json, re
s = open('/verif/DESIGN.md').read()
for pid in ['C%02d' % i for i in range(1, 19)]:
    try:
        e = json.load(open('/verif/evidence/%s.json' % pid))
    except Exception:
        continue
    cov = e['coverage']
    m = re.search(r'(\d+) obligations generated', cov.get('explanation', ''))
    if not m:
        continue
    total, dis = int(m.group(1)), cov.get('discharged')
    s = re.sub(r'(\| %s \| \w+ \| )\d+ / \d+( \|)' % pid, r'\g<1>%d / %d\2' % (total, dis), s)
open('/verif/DESIGN.md', 'w').write(s)
