#!/bin/bash
# usage: verify_mutant.sh <worktree> <property> <seed-name>
# Confirms: with patch suite passes + demo fails; without patch demo passes. Then stores under /verif/seeded/<seed-name>.
set -u
export GOFLAGS=-mod=mod GOPROXY=off GOSUMDB=off GOTOOLCHAIN=local
wt=$1; prop=$2; name=$3
cd $wt || exit 2
demo=$(git status --porcelain | grep 'zz_demo_test.go' | awk '{print $2}')
[ -z "$demo" ] && { echo "no demo file"; exit 2; }
pkgdir=$(dirname $demo)
git diff -- pkg/go > /tmp/vm_patch.diff
[ -s /tmp/vm_patch.diff ] || { echo "no source diff"; exit 2; }
echo "== suite with patch (demo excluded)"
mv $demo /tmp/vm_demo.go
(cd pkg/go && go build ./... && go test -vet=off -count=1 ./... 2>&1 | tail -6); suite=$?
cp /tmp/vm_demo.go $demo
echo "== demo with patch (expect FAIL)"
(cd $pkgdir && go test -vet=off -count=1 -run "TestDemo${prop}\$" . 2>&1 | tail -15) > /tmp/vm_with.txt; cat /tmp/vm_with.txt | tail -5
git apply -R /tmp/vm_patch.diff
echo "== demo without patch (expect PASS)"
(cd $pkgdir && go test -vet=off -count=1 -run "TestDemo${prop}\$" . 2>&1 | tail -15) > /tmp/vm_without.txt; cat /tmp/vm_without.txt | tail -3
git apply /tmp/vm_patch.diff
if grep -q '^FAIL\|--- FAIL' /tmp/vm_with.txt && grep -q '^ok' /tmp/vm_without.txt; then
  d=/verif/seeded/$name; mkdir -p $d
  cp /tmp/vm_patch.diff $d/patch.diff; cp $demo $d/$(basename $demo); [ -f NOTE.md ] && cp NOTE.md $d/NOTE.md
  echo "$pkgdir" > $d/demo_pkg.txt
  echo "CONFIRMED -> $d"
else
  echo "NOT CONFIRMED"
fi
