#!/bin/bash
# usage: process_mutant.sh <property> <suffix> "<change>" "<needs to manifest>"
# confirms the change of scratch worktree /tmp/mut/<property>-<suffix> (tools/verify_mutant.sh), stores it under
# /verif/seeded/<property>-<suffix>/ with meta.json, and removes the scratch worktree.
set -u
p=$1; s=$2; change=$3; needs=$4
n=$p-$s; wt=/tmp/mut/$n
out=$("$(dirname "$0")/verify_mutant.sh" "$wt" "$p" "$n" 2>&1)
echo "$out" | tail -4
if echo "$out" | grep -q '^CONFIRMED'; then
python3 - "$n" "$p" "$change" "$needs" <<'PY'
import json,sys
name,prop,change,needs=sys.argv[1:5]
json.dump({"property":prop,"change":change,"needs_to_manifest":needs,"author":"independent sub-agent (saw only the property text and a scratch worktree without contract files)","confirmed":"tools/verify_mutant.sh: existing suite passes with the patch; the demo fails with it and passes without it"},open(f'/verif/seeded/{name}/meta.json','w'),indent=1)
PY
fi
git -C /repo worktree remove --force "$wt"; rm -f "$wt.prompt"
