#!/usr/bin/env python3
"""C18, last clause: the rule strings of the Go, JS and Java packages are identical. A textual comparison of the
string literals (after un-escaping each language's literal syntax), NOT a deduction. Prints one line per rule and a
GOVC-BOUNDED-style JSON report; exit 0 when all agree."""
import re, sys, json
repo = sys.argv[1] if len(sys.argv) > 1 else '/repo'
def unescape(s):
    # Go interpreted, JS and Java string literals share these escapes for the characters that occur in the rules
    return s.replace('\\\\', '\\')
go = dict((k.lower(), unescape(v)) for k, v in re.findall(r'Rule(\w+)\s+Rule\s*=\s*"((?:[^"\\]|\\.)*)"', open(repo + '/pkg/go/validation/validation-rules.go').read()))
js = dict((k.lower(), unescape(v)) for k, v in re.findall(r'(\w+):\s*"((?:[^"\\]|\\.)*)"', open(repo + '/pkg/js/validator/validate-rules.ts').read().split('};')[0]))
jv = dict((k.lower(), unescape(v)) for k, v in re.findall(r'String\s+(\w+)\s*=\s*"((?:[^"\\]|\\.)*)"', open(repo + '/pkg/java/src/main/java/dev/openfga/language/validation/Validator.java').read()))
viol = []
for k in sorted(go):
    same = go.get(k) == js.get(k) == jv.get(k)
    print("%-10s go=%r js=%r java=%r %s" % (k, go.get(k), js.get(k), jv.get(k), "OK" if same else "DIFFER"))
    if not same:
        viol.append("[rule-strings-differ] %s :: go=%r js=%r java=%r" % (k, go.get(k), js.get(k), jv.get(k)))
rep = {"property": "C18", "check": "rule-strings-comparison", "function": "validation rule constants (Go / JS / Java)", "scope": "the five rule string literals of the three packages (textual comparison, not deduction)",
       "cases": len(go), "distinct_nontrivial": len(go), "exhaustive": True, "violations": viol, "violations_by_class": ({"rule-strings-differ": len(viol)} if viol else {}), "samples": ["%s=%s" % (k, go[k]) for k in sorted(go)][:2]}
print("GOVC-BOUNDED " + json.dumps(rep))
sys.exit(1 if viol or len(go) < 5 else 0)
