#!/bin/bash
# usage: gotest_overlay.sh <repo-root> <pkg (graph|transformer|utils|validation)> <test-file> [go test args...]
# Runs an in-package test file against the repository without writing into it (go test -overlay).
set -u
export GOFLAGS=-mod=mod GOPROXY=off GOSUMDB=off GOTOOLCHAIN=local
repo=$1; pkg=$2; tf=$3; shift 3
tmp=$(mktemp -d /tmp/ovXXXXXX)
dst="$repo/pkg/go/$pkg/zz_verif_$(basename $tf)"
printf '{"Replace": {"%s": "%s"}}' "$dst" "$(readlink -f $tf)" > $tmp/ov.json
(cd $repo/pkg/go/$pkg && go test -overlay $tmp/ov.json -vet=off -count=1 "$@" .)
rc=$?
rm -rf $tmp
exit $rc
