#!/bin/bash
# Must-fail corpus: every seeded change of /verif/seeded/<name>/ (patch.diff + meta) is applied to a scratch worktree
# of the repository (outside /repo and /verif, removed afterwards) and the check of its property must report a
# violation (exit 1); on the unchanged scratch copy the same check must exit 0.
# usage: selftest.sh [name...]      (default: all)
set -u
VERIF="$(cd "$(dirname "$0")/.." && pwd)"
SCR=$(mktemp -d /tmp/selftest-XXXXXX)
git -C /repo worktree add --detach "$SCR/wt" HEAD >/dev/null 2>&1 || { echo "cannot create worktree"; exit 2; }
trap 'git -C /repo worktree remove --force "$SCR/wt" >/dev/null 2>&1; rm -rf "$SCR"' EXIT
names=("$@")
[ ${#names[@]} -eq 0 ] && names=($(ls "$VERIF/seeded"))
fail=0
for n in "${names[@]}"; do
  prop=${n%%-*}
  d="$VERIF/seeded/$n"
  [ -f "$d/meta.json" ] && prop=$(python3 -c "import json;print(json.load(open('$d/meta.json'))['property'])")
  (cd "$SCR/wt" && git checkout -q -- . && git clean -fdq)
  if ! (cd "$SCR/wt" && git apply "$d/patch.diff" 2>/dev/null); then echo "$n: PATCH DOES NOT APPLY"; fail=1; continue; fi
  out=$("$VERIF/bin/check" "$prop" --repo "$SCR/wt" 2>&1); rc=$?
  nv=$(echo "$out" | grep -c '^VIOLATION')
  if [ $rc -eq 1 ] && [ $nv -gt 0 ]; then
    echo "$n: DETECTED by check $prop ($nv violation lines): $(echo "$out" | grep '^VIOLATION' | head -2 | sed 's/replay=[^ ]* //' | cut -c1-170 | tr '\n' '|')"
  else
    echo "$n: MISSED by check $prop (exit $rc)"; fail=1
  fi
done
exit $fail
