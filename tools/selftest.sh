#!/bin/bash
# Must-fail corpus: every seeded change of /verif/seeded/<name>/ (patch.diff + meta) is applied to a scratch worktree
# of the repository (outside /repo and /verif, removed afterwards) and the check of its property must report a
# violation (exit 1). Evidence and replay files of these runs go to the scratch directory, not to /verif.
# usage: selftest.sh [-j N] [name...]      (default: all, 3 at a time; changes of the same property run one after another)
set -u
VERIF="$(cd "$(dirname "$0")/.." && pwd)"
J=3
if [ "${1:-}" = "-j" ]; then J=$2; shift 2; fi
names=("$@")
[ ${#names[@]} -eq 0 ] && names=($(ls "$VERIF/seeded"))
SCR=$(mktemp -d /tmp/selftest-XXXXXX)
trap 'for w in "$SCR"/wt-*; do [ -d "$w" ] && git -C /repo worktree remove --force "$w" >/dev/null 2>&1; done; rm -rf "$SCR"' EXIT
one_group() { # $1 = property, rest = names
  prop=$1; shift
  wt="$SCR/wt-$prop"
  git -C /repo worktree add --detach "$wt" HEAD >/dev/null 2>&1 || { echo "cannot create worktree for $prop"; return 2; }
  for n in "$@"; do
    d="$VERIF/seeded/$n"
    (cd "$wt" && git checkout -q -- . && git clean -fdq)
    if ! (cd "$wt" && git apply "$d/patch.diff" 2>/dev/null); then echo "$n: PATCH DOES NOT APPLY"; continue; fi
    out=$(VERIF_EVIDENCE_DIR="$SCR/ev-$prop" VERIF_REPLAY_DIR="$SCR/rp-$prop" "$VERIF/bin/check" "$prop" --repo "$wt" 2>&1); rc=$?
    nv=$(echo "$out" | grep -c '^VIOLATION')
    if [ $rc -eq 1 ] && [ $nv -gt 0 ]; then
      echo "$n: DETECTED by check $prop ($nv violation lines): $(echo "$out" | grep '^VIOLATION' | head -2 | sed 's/replay=[^ ]* //' | cut -c1-170 | tr '\n' '|')"
    else
      echo "$n: MISSED by check $prop (exit $rc)"
    fi
  done
  git -C /repo worktree remove --force "$wt" >/dev/null 2>&1
}
export -f one_group; export VERIF SCR
declare -A groups
for n in "${names[@]}"; do
  prop=${n%%-*}
  [ -f "$VERIF/seeded/$n/meta.json" ] && prop=$(python3 -c "import json;print(json.load(open('$VERIF/seeded/$n/meta.json'))['property'])")
  groups[$prop]="${groups[$prop]:-} $n"
done
for prop in $(echo "${!groups[@]}" | tr ' ' '\n' | sort); do echo "$prop ${groups[$prop]}"; done > "$SCR/groups.txt"
xargs -P "$J" -L 1 bash -c 'one_group "$@"' _ < "$SCR/groups.txt" | tee "$SCR/out.txt"
! grep -q "MISSED\|DOES NOT APPLY\|cannot create" "$SCR/out.txt"
