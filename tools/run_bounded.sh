#!/bin/bash
# usage: run_bounded.sh <repo> <pkg> <TestRegex>   -- runs the bounded harness files of /verif/bounded/<pkg> via overlay
set -u
export GOFLAGS=-mod=mod GOPROXY=off GOSUMDB=off GOTOOLCHAIN=local
repo=$1; pkg=$2; rx=$3
tmp=$(mktemp -d /tmp/bdXXXXXX)
printf '{"Replace": {' > $tmp/ov.json
first=1
for f in /verif/bounded/$pkg/*.go; do
  [ $first -eq 1 ] || printf ',' >> $tmp/ov.json
  first=0
  printf '"%s": "%s"' "$repo/pkg/go/$pkg/zz_verif_$(basename $f)" "$f" >> $tmp/ov.json
done
printf '}}' >> $tmp/ov.json
(cd $repo/pkg/go/$pkg && go test -tags verif -overlay $tmp/ov.json -vet=off -count=1 -timeout ${VERIF_BOUNDED_TIMEOUT:-900s} -run "$rx" -v . 2>&1)
rc=$?
rm -rf $tmp
exit $rc
