#!/bin/bash
# usage: new_mutant_wt.sh <dir>   - scratch worktree of /repo HEAD for a mutation sub-agent: the contract and hook files
# (tag verif) are removed from the working tree and hidden from git status/diff (skip-worktree), so the agent sees
# nothing of the verification machinery and its patch.diff contains only its own change.
set -eu
wt=$1
git -C /repo worktree add --detach "$wt" HEAD >/dev/null 2>&1
cd "$wt"
for f in $(git ls-files 'pkg/go/**/*_verif.go' 'pkg/go/*/*_verif.go' | sort -u); do
  git update-index --skip-worktree "$f"
  rm -f "$f"
done
git status --short | head
echo "worktree ready: $wt"
