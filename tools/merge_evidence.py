#!/usr/bin/env python3
"""Merge the deductive part (written by govc) and the bounded stand-ins (GOVC-BOUNDED lines of go test) of one
property into /verif/evidence/<ID>.json, print KNOWN-FINDING / VIOLATION lines, exit 0/1/2.

usage: merge_evidence.py <ID> <tier> <deductive.json|-> <bounded-output-file>... """
import json, sys, os, re, time

pid, tier, ded = sys.argv[1], sys.argv[2], sys.argv[3]
outs = sys.argv[4:]
verif = os.path.dirname(os.path.dirname(os.path.abspath(__file__)))
known = []
for l in open(os.path.join(verif, 'known_findings.jsonl')):
    l = l.strip()
    if l.startswith('{'):
        try:
            known.append(json.loads(l))
        except Exception:
            pass

ev = None
if ded != '-' and os.path.exists(ded):
    ev = json.load(open(ded))
if ev is None:
    ev = {"property_id": pid, "tier": tier, "seed": int(os.environ.get('VERIF_SEED', '0') or 0), "level": "other",
          "coverage": {"obligations": 0, "discharged": 0, "explanation": "no deductive part for this property"},
          "assumptions": [], "wall_s": 0.0, "violations": 0}
cov = ev["coverage"]
lines = []
violations = ev.get("violations", 0)
bounded = []
harness_error = False
for f in outs:
    if not os.path.exists(f):
        continue
    text = open(f, errors='replace').read()
    found = False
    for l in text.splitlines():
        if not l.startswith('GOVC-BOUNDED '):
            continue
        try:
            rep = json.loads(l[len('GOVC-BOUNDED '):])
        except Exception:
            continue
        if rep.get('property') != pid:
            continue
        found = True
        byclass = rep.get('violations_by_class') or {}
        vs = rep.get('violations') or []
        unknown_classes = {}
        for cls, n in sorted(byclass.items()):
            k = [x for x in known if x.get('property') == pid and x.get('bounded') == rep['check'] and x.get('class') == cls]
            if k:
                lines.append("KNOWN-FINDING: property=%s %s [%s, class %s, %d inputs in this run]" % (pid, k[0]['what'], rep['check'], cls, n))
            else:
                unknown_classes[cls] = n
        # violations without class bookkeeping (older harness format)
        if not byclass and vs:
            unknown_classes['unclassified'] = len(vs)
        replay = None
        if unknown_classes:
            rdir = os.path.join(os.environ.get('VERIF_REPLAY_DIR') or os.path.join(verif, 'replays'), pid)
            os.makedirs(rdir, exist_ok=True)
            replay = os.path.join(rdir, 'bounded-%s.json' % rep['check'])
            json.dump({"property": pid, "check": rep['check'], "function": rep.get('function'), "scope": rep.get('scope'),
                       "failing_inputs": [v for v in vs if any(v.startswith('[' + c + ']') for c in unknown_classes) or not byclass],
                       "by_class": unknown_classes,
                       "note": "bounded stand-in: the contract of the named function evaluated on the real code for every input of the scope; each entry is '[class] input :: what failed'"},
                      open(replay, 'w'), indent=1)
            for cls, n in sorted(unknown_classes.items()):
                lines.append("VIOLATION property=%s replay=%s check=%s class=%s inputs=%d" % (pid, replay, rep['check'], cls, n))
                violations += 1
        if rep['check'].startswith('rule-strings'):
            cov["comparison"] = {"check": rep['check'], "scope": rep.get('scope'), "cases": rep.get('cases'), "violations": vs,
                                 "note": "textual comparison, not a deduction; does not change the level of the deductive part"}
            continue
        bounded.append({"check": rep['check'], "function": rep.get('function'), "scope": rep.get('scope'), "cases": rep.get('cases'),
                        "distinct_nontrivial": rep.get('distinct_nontrivial'), "exhaustive": rep.get('exhaustive'),
                        "violations_by_class": byclass, "samples": rep.get('samples')})
    if not found and 'panic: test timed out' in text:
        # the code under test did not return within the harness budget (20x its normal running time): C08 "never hangs"
        # for every property whose stand-in this is
        rdir = os.path.join(os.environ.get('VERIF_REPLAY_DIR') or os.path.join(verif, 'replays'), pid)
        os.makedirs(rdir, exist_ok=True)
        replay = os.path.join(rdir, 'bounded-timeout.json')
        json.dump({"property": pid, "note": "the bounded harness did not finish: a call into the code under test never returned (goroutine dump below)",
                   "output_tail": text.splitlines()[-60:]}, open(replay, 'w'), indent=1)
        lines.append("VIOLATION property=%s replay=%s check=bounded-harness class=hang/harness-timed-out inputs=1" % (pid, replay))
        violations += 1
        found = True
    if not found and ('FAIL' in text or 'panic' in text or 'build failed' in text):
        harness_error = True
        lines.append("HARNESS-ERROR: bounded harness output %s has no report for %s:\n%s" % (f, pid, "\n".join(text.splitlines()[-15:])))

if bounded:
    cov["bounded"] = bounded
    cov["evaluations"] = sum(b.get("cases") or 0 for b in bounded)
    cov["distinct_nontrivial"] = max(2, sum(b.get("distinct_nontrivial") or 0 for b in bounded))
    cov["rule"] = "bounded stand-ins: every input of the stated finite scope is generated and the contract of the stand-in function is evaluated on the real code; an input is one model / file set / text (distinct by construction of the enumeration)"
    cov.setdefault("samples", [])
    for b in bounded:
        for s in (b.get("samples") or [])[:2]:
            cov["samples"].append({"bounded": b["check"], "case": s})
    cov["exhaustive"] = all(b.get("exhaustive") for b in bounded)
    ev["level"] = "other"
    cov["explanation"] = (cov.get("explanation", "") + " | bounded stand-ins (NOT counted as proved): " +
                          "; ".join("%s on %s cases (exhaustive=%s)" % (b["check"], b["cases"], b["exhaustive"]) for b in bounded))
if not cov.get("samples"):
    cov["samples"] = [{"note": "no samples"}]
ev["violations"] = violations
if "explanation" not in cov:
    cov["explanation"] = "see per_obligation"
json.dump(ev, open(os.path.join(os.environ.get('VERIF_EVIDENCE_DIR') or os.path.join(verif, 'evidence'), pid + '.json'), 'w'), indent=1)
for l in lines:
    print(l)
if harness_error:
    sys.exit(2)
sys.exit(1 if violations > 0 else 0)
