package transformer

import (
	"testing"

	openfgav1 "github.com/openfga/api/proto/openfga/v1"
)

// F-08b: a list parameter without element type is a structurally valid protobuf; printing must not panic (C08).
func TestF08b(t *testing.T) {
	defer func() {
		if r := recover(); r != nil {
			t.Fatalf("panic: %v", r)
		}
	}()
	m := &openfgav1.AuthorizationModel{SchemaVersion: "1.1", Conditions: map[string]*openfgav1.Condition{
		"c": {Name: "c", Expression: "true", Parameters: map[string]*openfgav1.ConditionParamTypeRef{
			"p": {TypeName: openfgav1.ConditionParamTypeRef_TYPE_NAME_LIST},
		}},
	}}
	_, _ = TransformJSONProtoToDSL(m)
}
