package transformer

import (
	"strings"
	"testing"
)

// F-12a/b: the error list of a merge must be the same on every invocation (property C12).
func TestF12a(t *testing.T) {
	files := []ModuleFile{
		{Name: "core.fga", Contents: "module core\ntype user\ntype doc\n  relations\n    define owner: [user]\n"},
		{Name: "view.fga", Contents: "module view\nextend type doc\n  relations\n    define viewer: [user]\n"},
		{Name: "view-again.fga", Contents: "module viewagain\nextend type doc\n  relations\n    define viewer: [user]\n"},
		{Name: "c1.fga", Contents: "module c1\ncondition a(x: int) {\n  x < 1\n}\n\ncondition b(x: int) {\n  x < 1\n}\n"},
		{Name: "c2.fga", Contents: "module c2\ncondition a(x: int) {\n  x < 1\n}\n\ncondition b(x: int) {\n  x < 1\n}\n"},
	}
	seen := map[string]int{}
	for i := 0; i < 300; i++ {
		_, err := TransformModuleFilesToModel(files, "1.2")
		if err == nil {
			t.Fatal("accepted")
		}
		var parts []string
		for _, e := range err.(*ModuleValidationMultipleError).Errors {
			se := e.(*ModuleTransformationSingleError)
			parts = append(parts, se.File+": "+se.Msg)
		}
		seen[strings.Join(parts, " | ")]++
	}
	if len(seen) != 1 {
		t.Fatalf("%d different error lists for the same input: %v", len(seen), seen)
	}
}
