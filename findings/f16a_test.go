package utils

import "testing"

// F-16a: a lookup must find the line that declares the name, not an earlier line sharing a prefix (property C16).
func TestF16a(t *testing.T) {
	lines := []string{"module m", "type user2", "type user", "  relations", "    define viewer2: [user]", "    define viewer: [user]", "extend type doc2", "extend type doc", "condition c2(x: int) {", "condition c(x: int) {"}
	if got := GetTypeLineNumber("user", lines); got != 2 {
		t.Errorf("type user: line %d", got)
	}
	if got := GetRelationLineNumber("viewer", lines); got != 5 {
		t.Errorf("define viewer: line %d", got)
	}
	if got := GetExtendedTypeLineNumber("doc", lines); got != 7 {
		t.Errorf("extend type doc: line %d", got)
	}
	if got := GetConditionLineNumber("c", lines); got != 9 {
		t.Errorf("condition c: line %d", got)
	}
}
