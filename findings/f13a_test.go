package transformer

import (
	"testing"

	openfgav1 "github.com/openfga/api/proto/openfga/v1"
)

// F-13a: printing must not reorder the caller's type definitions (property C13).
func TestF13a(t *testing.T) {
	m := &openfgav1.AuthorizationModel{SchemaVersion: "1.2", TypeDefinitions: []*openfgav1.TypeDefinition{
		{Type: "z", Metadata: &openfgav1.Metadata{Module: "m", SourceInfo: &openfgav1.SourceInfo{File: "f.fga"}}},
		{Type: "a", Metadata: &openfgav1.Metadata{Module: "m", SourceInfo: &openfgav1.SourceInfo{File: "f.fga"}}},
	}}
	if _, err := TransformJSONProtoToDSL(m); err != nil {
		t.Fatal(err)
	}
	if m.TypeDefinitions[0].Type != "z" {
		t.Fatalf("input model was modified: first type is now %q", m.TypeDefinitions[0].Type)
	}
}
