package graph

import (
	"testing"

	openfgav1 "github.com/openfga/api/proto/openfga/v1"
)

// F-17a: a restriction whose relation is the empty string (decodable from JSON: {"type":"user","relation":""}) must not
// make the plain graph builder panic (C08), and must be drawn like the weighted builder draws it (C17).
func TestF17a(t *testing.T) {
	defer func() {
		if r := recover(); r != nil {
			t.Fatalf("panic: %v", r)
		}
	}()
	m := &openfgav1.AuthorizationModel{SchemaVersion: "1.1", TypeDefinitions: []*openfgav1.TypeDefinition{
		{Type: "user"},
		{Type: "doc", Relations: map[string]*openfgav1.Userset{"viewer": {Userset: &openfgav1.Userset_This{This: &openfgav1.DirectUserset{}}}},
			Metadata: &openfgav1.Metadata{Relations: map[string]*openfgav1.RelationMetadata{"viewer": {DirectlyRelatedUserTypes: []*openfgav1.RelationReference{
				{Type: "user", RelationOrWildcard: &openfgav1.RelationReference_Relation{Relation: ""}},
			}}}}},
	}}
	if _, err := NewAuthorizationModelGraph(m); err != nil {
		t.Fatal(err)
	}
}
