package graph

import (
	"errors"
	"testing"

	"github.com/openfga/language/pkg/go/transformer"
)

// F-05a: a relation rewritten to itself needs no tuple to loop: never well-founded (property C05).
func TestF05a(t *testing.T) {
	m := transformer.MustTransformDSLToProto("model\n  schema 1.1\ntype user\ntype doc\n  relations\n    define a: a\n    define b: [user]\n")
	for i := 0; i < 50; i++ {
		_, err := NewWeightedAuthorizationModelGraphBuilder().Build(m)
		if err == nil {
			t.Fatal("define a: a accepted")
		}
		if !errors.Is(err, ErrModelCycle) && !errors.Is(err, ErrInvalidModel) && !errors.Is(err, ErrTupleCycle) {
			t.Fatalf("unexpected error %v", err)
		}
	}
}

// F-05c: a relation that only refers to itself through tuples reaches no terminal user type (properties C05, C04).
func TestF05c(t *testing.T) {
	m := transformer.MustTransformDSLToProto("model\n  schema 1.1\ntype user\ntype doc\n  relations\n    define parent: [doc]\n    define a: [user]\n    define b: b from parent\n")
	for i := 0; i < 50; i++ {
		g, err := NewWeightedAuthorizationModelGraphBuilder().Build(m)
		if err == nil {
			t.Fatalf("define b: b from parent accepted; weights of doc#b = %v", g.nodes["doc#b"].weights)
		}
	}
}
