package transformer

import "testing"

// F-01a: the model returned by the DSL parser, handed directly to the DSL printer (property C01).
func TestF01a(t *testing.T) {
	m, err := TransformDSLToProto("model\n  schema 1.1\ntype user\ntype doc\n  relations\n    define viewer: [user]\n")
	if err != nil {
		t.Fatal(err)
	}
	if _, err := TransformJSONProtoToDSL(m); err != nil {
		t.Fatalf("printer rejects the parser's own model: %v", err)
	}
}
