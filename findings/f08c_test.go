package transformer

import "testing"

// F-08c / F-07b: a model-headed file with a condition among module files: error naming the file, not a panic.
func TestF08c(t *testing.T) {
	defer func() {
		if r := recover(); r != nil {
			t.Fatalf("panic: %v", r)
		}
	}()
	files := []ModuleFile{{Name: "a.fga", Contents: "model\n  schema 1.1\ntype user\n\ncondition c(x: int) {\n  x < 1\n}\n"}}
	m, err := TransformModuleFilesToModel(files, "1.2")
	if err == nil || m != nil {
		t.Fatalf("accepted a file that is not a module: %v", m)
	}
	me, ok := err.(*ModuleValidationMultipleError)
	if !ok {
		t.Fatalf("unexpected error type %T", err)
	}
	for _, e := range me.Errors {
		if se, ok := e.(*ModuleTransformationSingleError); ok && se.File == "" {
			t.Fatalf("error %q does not name the offending file", se.Msg)
		}
	}
}
