package transformer

import "testing"

// F-08a: a module header without a name followed by an extension must be an error, not a panic (property C08).
func TestF08a(t *testing.T) {
	defer func() {
		if r := recover(); r != nil {
			t.Fatalf("panic: %v", r)
		}
	}()
	_, _, err := TransformModularDSLToProto("module\nextend type x\n  relations\n    define a: [user]\n")
	if err == nil {
		t.Fatal("accepted")
	}
}
