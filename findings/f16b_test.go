package transformer

import "testing"

// F-16b: a relation conflict is reported on the line of the conflicting declaration itself, not on a same-named
// relation of another type of the same file (property C16).
func TestF16b(t *testing.T) {
	files := []ModuleFile{
		{Name: "core.fga", Contents: "module core\ntype user\ntype org\ntype doc\n  relations\n    define viewer: [user]\n"},
		{Name: "ext.fga", Contents: "module ext\nextend type org\n  relations\n    define viewer: [user]\nextend type doc\n  relations\n    define viewer: [user]\n"},
	}
	_, err := TransformModuleFilesToModel(files, "1.2")
	if err == nil {
		t.Fatal("accepted")
	}
	for _, e := range err.(*ModuleValidationMultipleError).Errors {
		se := e.(*ModuleTransformationSingleError)
		if se.File != "ext.fga" || se.Line.Start != 6 {
			t.Fatalf("%q reported at %s line %d, the conflicting declaration stands on line 6 of ext.fga", se.Msg, se.File, se.Line.Start)
		}
	}
}
