package utils

import "testing"

// F-16c: the column span of a reported name is the name token, not an earlier occurrence of its letters (C16).
func TestF16c(t *testing.T) {
	for _, c := range []struct {
		line, symbol string
		want         int
	}{
		{"    define e: [user]", "e", 11},
		{"type t", "t", 5},
		{"condition c(x: int) {", "c", 10},
		{"extend type type", "type", 12},
	} {
		_, col := ConstructLineAndColumnData([]string{c.line}, 0, c.symbol)
		if col.Start != c.want || col.End != c.want+len(c.symbol) {
			t.Errorf("%q / %q: columns %d-%d, want %d-%d", c.line, c.symbol, col.Start, col.End, c.want, c.want+len(c.symbol))
		}
	}
}
