package graph

// C17 bounded: the plain authorization-model graph on the B4 model pool: structure against the statement (the same
// nodes and typed edges as the rewrite dictates, drawn from user types towards relations), reversal, DOT stability,
// path duality, label lookup, compile-time cycle flag.

import (
	"fmt"
	"math/rand"
	"regexp"
	"slices"
	"sort"
	"strings"
	"testing"

	openfgav1 "github.com/openfga/api/proto/openfga/v1"
	"google.golang.org/protobuf/proto"

	"gonum.org/v1/gonum/graph/multi"

	"github.com/openfga/language/pkg/go/transformer"
)

var ulidRE = regexp.MustCompile(`(union|intersection|exclusion):[0-9A-Z]{26}`)

// plainDigest: nodes by label/type, typed lines between labels (operator nodes named by operator only: the ULIDs
// differ between builds, so multiplicities are compared as a multiset).
func plainDigest(g *AuthorizationModelGraph) string {
	var lines []string
	it := g.Nodes()
	for it.Next() {
		n := it.Node().(*AuthorizationModelNode)
		lines = append(lines, fmt.Sprintf("node %s type=%d", ulidRE.ReplaceAllString(n.uniqueLabel, "$1"), n.nodeType))
	}
	ei := g.Edges()
	for ei.Next() {
		li := ei.Edge().(multi.Edge).Lines
		for li.Next() {
			e := li.Line().(*AuthorizationModelEdge)
			f, t := e.From().(*AuthorizationModelNode), e.To().(*AuthorizationModelNode)
			lines = append(lines, fmt.Sprintf("line %s -> %s type=%d ts=%s cond=%v", ulidRE.ReplaceAllString(f.uniqueLabel, "$1"), ulidRE.ReplaceAllString(t.uniqueLabel, "$1"), e.edgeType, e.tuplesetRelation, e.conditions))
		}
	}
	sort.Strings(lines)
	return strings.Join(lines, "\n")
}

// specPlainDigest: from the statement of C10's structure (specDigest) with every edge flipped.
func specPlainDigest(want string) string {
	var lines []string
	nodeRE := regexp.MustCompile(`^node (\S+) type=(\d+) label=`)
	edgeRE := regexp.MustCompile(`^edge (\S+) #\d+ -> (\S+) type=(\d+) ts=(\S*) cond=(.*)$`)
	canon := func(s string) string {
		// canonical operator names of specDigest look like doc#a/0:union/1:intersection -> operator kind only
		if i := strings.LastIndex(s, ":"); i >= 0 && strings.Contains(s, "/") {
			return s[i+1:]
		}
		return s
	}
	for _, l := range strings.Split(want, "\n") {
		if m := nodeRE.FindStringSubmatch(l); m != nil {
			lines = append(lines, fmt.Sprintf("node %s type=%s", canon(m[1]), m[2]))
		} else if m := edgeRE.FindStringSubmatch(l); m != nil {
			lines = append(lines, fmt.Sprintf("line %s -> %s type=%s ts=%s cond=%s", canon(m[2]), canon(m[1]), m[3], m[4], m[5]))
		}
	}
	sort.Strings(lines)
	return strings.Join(lines, "\n")
}

func TestBoundedC17(t *testing.T) {
	r := &boundedReport{Property: "C17", Check: "C17-plain-graph", Function: "NewAuthorizationModelGraph / Reversed / GetDOT / PathExists / GetNodeByLabel / GetCycles",
		Scope: "the B4 model pool (two relations a, b of type doc, 3 parent options, sampled) plus the fixed regression shapes; per model: 3 builds, double reversal, all node-label pairs for path queries"}
	rng := rand.New(rand.NewSource(seed() + 7))
	pool := defPool([]string{"a", "b"})
	parentsOpts := [][]string{{"doc"}, {"folder"}, {"doc", "folder"}}
	n := 400
	if thorough() {
		n = 6000
	}
	for k := 0; k < n; k++ {
		g := gmodel{parents: parentsOpts[rng.Intn(3)], rels: map[string]rw{"a": pool[rng.Intn(len(pool))], "b": pool[rng.Intn(len(pool))]}}
		id := fmt.Sprintf("a: %s; b: %s; parent: %v", g.rels["a"].text(), g.rels["b"].text(), g.parents)
		model, err := transformer.TransformDSLToProto(g.dsl())
		if err != nil {
			continue
		}
		r.Cases++
		r.Distinct++
		var dots []string
		var first *AuthorizationModelGraph
		for b := 0; b < 3; b++ {
			pg, err := NewAuthorizationModelGraph(model)
			if err != nil {
				r.violation("build-error", id, "%v", err)
				break
			}
			if first == nil {
				first = pg
			}
			dots = append(dots, pg.GetDOT())
		}
		if first == nil {
			continue
		}
		// DOT stability modulo nothing: the statement says identical on every build
		if len(dots) == 3 && (dots[0] != dots[1] || dots[1] != dots[2]) {
			// ULIDs are random: the statement demands they do not leak; compare after masking to classify
			if ulidRE.ReplaceAllString(dots[0], "$1") == ulidRE.ReplaceAllString(dots[1], "$1") && ulidRE.ReplaceAllString(dots[1], "$1") == ulidRE.ReplaceAllString(dots[2], "$1") {
				r.violation("dot-differs-between-builds/only-operator-ulids", id, "DOT differs between builds of the same model (only in the random ULID of operator nodes)")
			} else {
				r.violation("dot-differs-between-builds", id, "DOT differs between builds of the same model beyond operator ULIDs")
			}
		}
		// structure
		want, repeated := specDigest(model)
		if got, exp := plainDigest(first), specPlainDigest(want); got != exp {
			cls := "structure-differs"
			if repeated {
				cls = "structure-differs/repeated-tuple-to-userset-operand"
			}
			r.violation(cls, id, "plain graph differs from the rewrite:\n%s", firstDiff(exp, got))
		}
		// the same model with the operands of every root union/intersection in reverse order (only reachable through
		// JSON/proto: the DSL always puts the direct assignment first): the edges a rewrite dictates do not depend on the
		// operand order
		if alt := reversedOperands(model); alt != nil {
			if ag, err := NewAuthorizationModelGraph(alt); err != nil {
				r.violation("build-error", id+" [operands reversed]", "%v", err)
			} else {
				want2, repeated2 := specDigest(alt)
				if got, exp := plainDigest(ag), specPlainDigest(want2); got != exp {
					cls := "structure-differs"
					if repeated2 {
						cls = "structure-differs/repeated-tuple-to-userset-operand"
					}
					r.violation(cls, id+" [operands reversed]", "plain graph differs from the rewrite:\n%s", firstDiff(exp, got))
				}
			}
		}
		// reversal
		rev, err := first.Reversed()
		if err != nil {
			r.violation("reverse-error", id, "%v", err)
			continue
		}
		if rev.GetDrawingDirection() == first.GetDrawingDirection() {
			r.violation("direction-not-flipped", id, "drawing direction unchanged by Reversed")
		}
		flip := func(d string) string {
			var ls []string
			re := regexp.MustCompile(`^line (\S+) -> (\S+) (.*)$`)
			for _, l := range strings.Split(d, "\n") {
				if m := re.FindStringSubmatch(l); m != nil {
					l = fmt.Sprintf("line %s -> %s %s", m[2], m[1], m[3])
				}
				ls = append(ls, l)
			}
			sort.Strings(ls)
			return strings.Join(ls, "\n")
		}
		if plainDigest(rev) != flip(plainDigest(first)) {
			r.violation("reverse-not-a-flip", id, "reversed graph is not the original with every edge flipped:\n%s", firstDiff(flip(plainDigest(first)), plainDigest(rev)))
		}
		rev2, err := rev.Reversed()
		if err == nil && rev2.GetDOT() != first.GetDOT() {
			if plainDigest(rev2) == plainDigest(first) {
				r.violation("double-reverse-dot-differs/same-graph", id, "reversing twice gives the same nodes and lines but a different DOT text (line order)")
			} else {
				r.violation("double-reverse-differs", id, "reversing twice changes the graph")
			}
		}
		// paths and labels
		var labels []string
		it := first.Nodes()
		for it.Next() {
			labels = append(labels, it.Node().(*AuthorizationModelNode).uniqueLabel)
		}
		sort.Strings(labels)
		for _, a := range labels {
			if nd, err := first.GetNodeByLabel(a); err != nil || nd.uniqueLabel != a {
				r.violation("label-lookup", id, "GetNodeByLabel(%s) = %v, %v", a, nd, err)
			}
			for _, b := range labels {
				p1, e1 := first.PathExists(a, b)
				p2, e2 := rev.PathExists(b, a)
				if e1 != nil || e2 != nil || p1 != p2 {
					r.violation("path-duality", id, "PathExists(%s,%s)=%v,%v but reversed PathExists(%s,%s)=%v,%v", a, b, p1, e1, b, a, p2, e2)
				}
			}
		}
		if _, err := first.GetNodeByLabel("no-such-label"); err == nil {
			r.violation("label-lookup", id, "unknown label found")
		}
		// compile-time cycles: two or more relations forming a cycle of pure computed usersets
		wantCycle := false
		ra, rb := g.rels["a"], g.rels["b"]
		if ra.op == "" && ra.kind == 'c' && rb.op == "" && rb.kind == 'c' && ra.rel == "b" && rb.rel == "a" {
			wantCycle = true
		}
		if got := first.GetCycles().hasCyclesAtCompileTime; got != wantCycle {
			cls := "compile-time-cycle-flag"
			if (ra.op == "" && ra.kind == 'c' && ra.rel == "a") || (rb.op == "" && rb.kind == 'c' && rb.rel == "b") {
				cls = "compile-time-cycle-flag/self-loop"
			}
			r.violation(cls, id, "hasCyclesAtCompileTime=%v, the statement gives %v", got, wantCycle)
		}
	}
	r.emit()
}

// reversedOperands returns a copy of the model in which the children of every root union / intersection are reversed
// (nil when no relation has such a root).
func reversedOperands(m *openfgav1.AuthorizationModel) *openfgav1.AuthorizationModel {
	c, _ := proto.Clone(m).(*openfgav1.AuthorizationModel)
	changed := false
	for _, td := range c.GetTypeDefinitions() {
		for _, rw := range td.GetRelations() {
			var kids []*openfgav1.Userset
			if u := rw.GetUnion(); u != nil {
				kids = u.GetChild()
			} else if i := rw.GetIntersection(); i != nil {
				kids = i.GetChild()
			}
			if len(kids) > 1 {
				slices.Reverse(kids)
				changed = true
			}
		}
	}
	if !changed {
		return nil
	}
	return c
}
