package graph

// B4: the weighted graph on all small models x every depth-first start order (DESIGN.md 2.7). Bounded stand-in for
// AssignWeights / calculateNodeWeight / calculateEdgeWeight (the DFS with cycle patching is out of deductive reach).
// Contract of Build checked at run time on the real code, sentence by sentence from the statements of C04, C05, C06,
// C10, C11, C13; the oracles below are written from the statements, not from the code.

import (
	"encoding/json"
	"errors"
	"fmt"
	"math/rand"
	"os"
	"sort"
	"strings"
	"testing"

	openfgav1 "github.com/openfga/api/proto/openfga/v1"
	"google.golang.org/protobuf/proto"

	"github.com/openfga/language/pkg/go/transformer"
)

type boundedReport struct {
	Property   string   `json:"property"`
	Check      string   `json:"check"`
	Function   string   `json:"function"`
	Scope      string   `json:"scope"`
	Cases      int      `json:"cases"`
	Distinct   int      `json:"distinct_nontrivial"`
	Exhaustive bool     `json:"exhaustive"`
	Violations []string       `json:"violations"`
	ByClass    map[string]int `json:"violations_by_class"`
	Samples    []string       `json:"samples"`
	seen       map[string]bool
}

// violation records "[class] model :: message". The class (kind of failure / model feature that explains it) is what
// /verif/known_findings.jsonl refers to; at most 12 violations are kept per class, all are counted.
func (r *boundedReport) violation(class, id string, format string, a ...any) {
	if r.ByClass == nil {
		r.ByClass = map[string]int{}
		r.seen = map[string]bool{}
	}
	key := class + "|" + id
	if r.seen[key] {
		return // one violation per model, class and property
	}
	r.seen[key] = true
	r.ByClass[class]++
	if r.ByClass[class] <= 12 {
		r.Violations = append(r.Violations, "["+class+"] "+id+" :: "+fmt.Sprintf(format, a...))
	}
}
func (r *boundedReport) sample(s string) {
	if len(r.Samples) < 4 {
		r.Samples = append(r.Samples, s)
	}
}
func (r *boundedReport) emit() {
	data, _ := json.Marshal(r)
	fmt.Printf("GOVC-BOUNDED %s\n", data)
}
func thorough() bool { return os.Getenv("VERIF_TIER") == "thorough" }
func seed() int64 {
	var s int64
	fmt.Sscanf(os.Getenv("VERIF_SEED"), "%d", &s)
	return s
}

// ---------- model description ----------

// leafKind: d = direct assignment (list of restriction strings), c = computed, t = tuple-to-userset
type rw struct {
	op    string // "", "or", "and", "but not"
	kind  byte
	restr []string // d: e.g. "user", "user:*", "group#member", "doc#a"
	rel   string   // c, t: relation; t: "rel from tupleset"
	ts    string
	kids  []rw
}

func (r rw) text() string {
	switch {
	case r.op != "":
		var ps []string
		for _, k := range r.kids {
			s := k.text()
			if k.op != "" {
				s = "(" + s + ")"
			}
			ps = append(ps, s)
		}
		return strings.Join(ps, " "+r.op+" ")
	case r.kind == 'd':
		return "[" + strings.Join(r.restr, ", ") + "]"
	case r.kind == 'c':
		return r.rel
	}
	return r.rel + " from " + r.ts
}

type gmodel struct {
	rels    map[string]rw // relations of type doc
	parents []string      // parent types of doc#parent
	id      string
}

func (g gmodel) dsl() string {
	var sb strings.Builder
	sb.WriteString("model\n  schema 1.1\ntype user\ntype employee\ntype group\n  relations\n    define member: [user]\ntype folder\n  relations\n    define a: [user]\n    define b: [employee]\n    define c: [user, employee]\ntype doc\n  relations\n")
	fmt.Fprintf(&sb, "    define parent: [%s]\n", strings.Join(g.parents, ", "))
	var names []string
	for n := range g.rels {
		names = append(names, n)
	}
	sort.Strings(names)
	for _, n := range names {
		fmt.Fprintf(&sb, "    define %s: %s\n", n, g.rels[n].text())
	}
	if strings.Contains(sb.String(), " with cx") {
		sb.WriteString("\ncondition cx(x: int) {\n  x < 1\n}\n")
	}
	return sb.String()
}

// ---------- oracle: semantics from the statements ----------

const inf = Infinite

type wmap map[string]int // terminal user type -> max tuple hops (inf for unbounded)

type semantics struct {
	model   *openfgav1.AuthorizationModel
	rels    map[string]*openfgav1.Userset // "type#rel"
	restr   map[string][]*openfgav1.RelationReference
	typeSet map[string]bool
}

func newSemantics(m *openfgav1.AuthorizationModel) *semantics {
	s := &semantics{model: m, rels: map[string]*openfgav1.Userset{}, restr: map[string][]*openfgav1.RelationReference{}, typeSet: map[string]bool{}}
	for _, td := range m.GetTypeDefinitions() {
		s.typeSet[td.GetType()] = true
		for n, u := range td.GetRelations() {
			s.rels[td.GetType()+"#"+n] = u
			s.restr[td.GetType()+"#"+n] = td.GetMetadata().GetRelations()[n].GetDirectlyRelatedUserTypes()
		}
	}
	return s
}

// operand results: key set with weights; wild set
type opval struct {
	w    wmap
	wild map[string]bool
	ok   bool // false: structurally invalid (C05 clause about tuple-to-userset)
}

func plus1(v int) int {
	if v >= inf {
		return inf
	}
	return v + 1
}

func maxInto(dst wmap, k string, v int) {
	if old, ok := dst[k]; !ok || v > old {
		dst[k] = v
	}
}

// eval computes the value of a rewrite of object type typ given the current approximation W of the relation nodes.
func (s *semantics) eval(typ, rel string, u *openfgav1.Userset, W map[string]wmap, WW map[string]map[string]bool) opval {
	out := opval{w: wmap{}, wild: map[string]bool{}, ok: true}
	switch x := u.GetUserset().(type) {
	case *openfgav1.Userset_This:
		for _, r := range s.restr[typ+"#"+rel] {
			switch {
			case r.GetWildcard() != nil:
				maxInto(out.w, r.GetType(), 1)
				out.wild[r.GetType()] = true
			case r.GetRelation() != "":
				key := r.GetType() + "#" + r.GetRelation()
				for k, v := range W[key] {
					maxInto(out.w, k, plus1(v))
				}
				for k := range WW[key] {
					out.wild[k] = true
				}
			default:
				maxInto(out.w, r.GetType(), 1)
			}
		}
	case *openfgav1.Userset_ComputedUserset:
		key := typ + "#" + x.ComputedUserset.GetRelation()
		for k, v := range W[key] {
			maxInto(out.w, k, v)
		}
		for k := range WW[key] {
			out.wild[k] = true
		}
	case *openfgav1.Userset_TupleToUserset:
		ts := x.TupleToUserset.GetTupleset().GetRelation()
		cr := x.TupleToUserset.GetComputedUserset().GetRelation()
		parents, has := s.restr[typ+"#"+ts]
		if _, defined := s.rels[typ+"#"+ts]; !defined || !has || len(parents) == 0 {
			out.ok = false
			return out
		}
		for _, p := range parents {
			key := p.GetType() + "#" + cr
			if _, ok := s.rels[key]; !ok {
				out.ok = false
				return out
			}
			for k, v := range W[key] {
				maxInto(out.w, k, plus1(v))
			}
			for k := range WW[key] {
				out.wild[k] = true
			}
		}
	case *openfgav1.Userset_Union:
		for _, c := range x.Union.GetChild() {
			cv := s.eval(typ, rel, c, W, WW)
			if !cv.ok {
				out.ok = false
			}
			for k, v := range cv.w {
				maxInto(out.w, k, v)
			}
			for k := range cv.wild {
				out.wild[k] = true
			}
		}
	case *openfgav1.Userset_Intersection:
		var cvs []opval
		for _, c := range x.Intersection.GetChild() {
			cv := s.eval(typ, rel, c, W, WW)
			if !cv.ok {
				out.ok = false
			}
			cvs = append(cvs, cv)
			for k := range cv.wild {
				out.wild[k] = true
			}
		}
		if len(cvs) > 0 {
			for k := range cvs[0].w {
				all, mx := true, 0
				for _, cv := range cvs {
					v, ok := cv.w[k]
					if !ok {
						all = false
						break
					}
					if v > mx {
						mx = v
					}
				}
				if all {
					out.w[k] = mx
				}
			}
		}
	case *openfgav1.Userset_Difference:
		b := s.eval(typ, rel, x.Difference.GetBase(), W, WW)
		sub := s.eval(typ, rel, x.Difference.GetSubtract(), W, WW)
		if !b.ok || !sub.ok {
			out.ok = false
		}
		for k, v := range b.w {
			if sv, ok := sub.w[k]; ok && sv > v {
				v = sv
			}
			out.w[k] = v
		}
		for k := range b.wild {
			out.wild[k] = true
		}
		for k := range sub.wild {
			out.wild[k] = true
		}
	}
	return out
}

type semResult struct {
	wellFounded bool
	reason      string
	// features of the model that explain known findings (computed from the model only)
	rewriteCycleOnTupleCycle bool // some node of a tuple-free rewrite cycle also lies on a cycle with a tuple hop
	selfComputedOnly         bool // the only tuple-free cycles are relations defined as themselves ('define a: a')
	multiEdgeOperand         bool // an intersection/exclusion has an operand drawn as several edges, or repeats a tuple-to-userset operand
	noBaseTupleCycle         bool // some relation on a tuple cycle reaches no terminal user type at all
	W           map[string]wmap
	WW          map[string]map[string]bool
}

// semantic computes the least fixpoint of the weight equations (longest walk: values above the bound are unbounded)
// and decides well-foundedness from the five conditions of the statement of C05.
func (s *semantics) semantic() semResult {
	res := semResult{W: map[string]wmap{}, WW: map[string]map[string]bool{}}
	keys := make([]string, 0, len(s.rels))
	for k := range s.rels {
		keys = append(keys, k)
		res.W[k] = wmap{}
		res.WW[k] = map[string]bool{}
	}
	sort.Strings(keys)
	bound := 4*len(keys) + 8
	structOK := true
	for iter := 0; iter < 4*bound; iter++ {
		changed := false
		for _, k := range keys {
			typ, rel, _ := strings.Cut(k, "#")
			v := s.eval(typ, rel, s.rels[k], res.W, res.WW)
			if !v.ok {
				structOK = false
			}
			for t, w := range v.w {
				if w > bound {
					w = inf
				}
				if old, ok := res.W[k][t]; !ok || w > old {
					res.W[k][t] = w
					changed = true
				}
			}
			for t := range v.wild {
				if !res.WW[k][t] {
					res.WW[k][t] = true
					changed = true
				}
			}
		}
		if !changed {
			break
		}
	}
	s.features(&res)
	if !structOK {
		res.reason = "tuple-to-userset over a tupleset without restrictions or a parent type lacking the relation"
		return res
	}
	// (1) rewrite-only cycle; (2) intersection/exclusion on a cycle
	if c := s.badCycle(); c != "" {
		res.reason = c
		return res
	}
	for _, k := range keys {
		if len(res.W[k]) == 0 {
			g := s.depGraph()
			seen := map[string]bool{}
			stack := []string{k}
			for len(stack) > 0 {
				x := stack[len(stack)-1]
				stack = stack[:len(stack)-1]
				if g[x] == nil {
					continue
				}
				for _, e := range g[x].out {
					if e.to == k {
						res.noBaseTupleCycle = true
					}
					if !seen[e.to] {
						seen[e.to] = true
						stack = append(stack, e.to)
					}
				}
			}
		}
	}
	// (4)/(5): some intersection without common type or relation without terminal type
	for _, k := range keys {
		typ, rel, _ := strings.Cut(k, "#")
		if why := s.emptyNode(typ, rel, s.rels[k], res.W, res.WW); why != "" {
			res.reason = k + ": " + why
			return res
		}
	}
	res.wellFounded = true
	return res
}

func (s *semantics) emptyNode(typ, rel string, u *openfgav1.Userset, W map[string]wmap, WW map[string]map[string]bool) string {
	v := s.eval(typ, rel, u, W, WW)
	if len(v.w) == 0 {
		switch u.GetUserset().(type) {
		case *openfgav1.Userset_Intersection:
			return "intersection without a user type common to all operands"
		}
		return "no terminal user type reachable"
	}
	cs, _ := kids(u)
	for _, c := range cs {
		if _, isOp := opOf(c); isOp {
			if why := s.emptyNode(typ, rel, c, W, WW); why != "" {
				return why
			}
		}
	}
	return ""
}

func kids(u *openfgav1.Userset) ([]*openfgav1.Userset, string) {
	switch x := u.GetUserset().(type) {
	case *openfgav1.Userset_Union:
		return x.Union.GetChild(), UnionOperator
	case *openfgav1.Userset_Intersection:
		return x.Intersection.GetChild(), IntersectionOperator
	case *openfgav1.Userset_Difference:
		return []*openfgav1.Userset{x.Difference.GetBase(), x.Difference.GetSubtract()}, ExclusionOperator
	}
	return nil, ""
}

func opOf(u *openfgav1.Userset) (string, bool) {
	_, op := kids(u)
	return op, op != ""
}

// dependency graph over relation nodes and operator occurrences: edges labelled hop / no-hop, nodes flagged strict
// (intersection, exclusion).
type dnode struct {
	strict bool
	out    []dedge
}
type dedge struct {
	to  string
	hop bool
}

func (s *semantics) depGraph() map[string]*dnode {
	g := map[string]*dnode{}
	var add func(owner, typ, rel string, u *openfgav1.Userset, path string)
	add = func(owner, typ, rel string, u *openfgav1.Userset, path string) {
		n := g[owner]
		switch x := u.GetUserset().(type) {
		case *openfgav1.Userset_This:
			for _, r := range s.restr[typ+"#"+rel] {
				if r.GetRelation() != "" && r.GetWildcard() == nil {
					n.out = append(n.out, dedge{r.GetType() + "#" + r.GetRelation(), true})
				}
			}
		case *openfgav1.Userset_ComputedUserset:
			n.out = append(n.out, dedge{typ + "#" + x.ComputedUserset.GetRelation(), false})
		case *openfgav1.Userset_TupleToUserset:
			for _, p := range s.restr[typ+"#"+x.TupleToUserset.GetTupleset().GetRelation()] {
				n.out = append(n.out, dedge{p.GetType() + "#" + x.TupleToUserset.GetComputedUserset().GetRelation(), true})
			}
		default:
			cs, op := kids(u)
			id := owner + "/" + path + op
			g[id] = &dnode{strict: op != UnionOperator}
			n.out = append(n.out, dedge{id, false})
			for i, c := range cs {
				add(id, typ, rel, c, fmt.Sprintf("%s%d.", path, i))
			}
		}
	}
	for k := range s.rels {
		g[k] = &dnode{}
	}
	for k, u := range s.rels {
		typ, rel, _ := strings.Cut(k, "#")
		add(k, typ, rel, u, "")
	}
	return g
}

// features computes the model features used to classify violations.
func (s *semantics) features(res *semResult) {
	g := s.depGraph()
	reach := func(from string, noHopOnly bool) map[string]bool {
		r := map[string]bool{}
		stack := []string{from}
		for len(stack) > 0 {
			x := stack[len(stack)-1]
			stack = stack[:len(stack)-1]
			if g[x] == nil {
				continue
			}
			for _, e := range g[x].out {
				if noHopOnly && e.hop {
					continue
				}
				if !r[e.to] {
					r[e.to] = true
					stack = append(stack, e.to)
				}
			}
		}
		return r
	}
	anyRewriteCycle, allSelf := false, true
	for n := range g {
		if reach(n, true)[n] {
			anyRewriteCycle = true
			// self definition: relation whose whole rewrite is a computed userset of itself
			self := false
			if u, ok := s.rels[n]; ok {
				if c, ok := u.GetUserset().(*openfgav1.Userset_ComputedUserset); ok && strings.HasSuffix(n, "#"+c.ComputedUserset.GetRelation()) {
					self = true
				}
			}
			if !self {
				allSelf = false
			}
			// also on a cycle with a hop?
			for _, e := range g[n].out {
				_ = e
			}
			all := reach(n, false)
			if all[n] {
				// is there a cycle through n that uses a hop edge: some hop edge x->y with x reachable from n (or x == n) and n reachable from y
				for x := range g {
					if x != n && !all[x] {
						continue
					}
					for _, e := range g[x].out {
						if e.hop && (e.to == n || reach(e.to, false)[n]) {
							res.rewriteCycleOnTupleCycle = true
						}
					}
				}
			}
		}
	}
	res.selfComputedOnly = anyRewriteCycle && allSelf
	// multi-edge operands under intersection / exclusion
	var walk func(typ, rel string, u *openfgav1.Userset)
	walk = func(typ, rel string, u *openfgav1.Userset) {
		cs, op := kids(u)
		if op == IntersectionOperator || op == ExclusionOperator {
			seenTTU := map[string]bool{}
			for _, c := range cs {
				switch x := c.GetUserset().(type) {
				case *openfgav1.Userset_This:
					if len(s.restr[typ+"#"+rel]) > 1 {
						res.multiEdgeOperand = true
					}
				case *openfgav1.Userset_TupleToUserset:
					k := x.TupleToUserset.GetComputedUserset().GetRelation() + " from " + x.TupleToUserset.GetTupleset().GetRelation()
					if seenTTU[k] || len(s.restr[typ+"#"+x.TupleToUserset.GetTupleset().GetRelation()]) > 1 {
						res.multiEdgeOperand = true
					}
					seenTTU[k] = true
				}
			}
		}
		for _, c := range cs {
			walk(typ, rel, c)
		}
	}
	for k, u := range s.rels {
		typ, rel, _ := strings.Cut(k, "#")
		walk(typ, rel, u)
	}
}

func (r semResult) class(kind string) string {
	switch {
	case r.selfComputedOnly:
		return kind + "/self-computed-relation"
	case r.rewriteCycleOnTupleCycle:
		return kind + "/rewrite-cycle-on-tuple-cycle"
	case r.multiEdgeOperand:
		return kind + "/multi-edge-operand-under-intersection-or-exclusion"
	case r.noBaseTupleCycle:
		return kind + "/tuple-cycle-without-terminal-type"
	}
	return kind + "/other"
}

// badCycle: "" if no cycle violates the statement: a cycle whose edges are all rewrite edges, or any cycle through an
// intersection or exclusion.
func (s *semantics) badCycle() string {
	g := s.depGraph()
	var names []string
	for k := range g {
		names = append(names, k)
	}
	sort.Strings(names)
	// reach[a][b] over all edges, reach0 over no-hop edges only
	reachVia := func(onlyNoHop bool) map[string]map[string]bool {
		r := map[string]map[string]bool{}
		for _, a := range names {
			r[a] = map[string]bool{}
			stack := []string{a}
			for len(stack) > 0 {
				x := stack[len(stack)-1]
				stack = stack[:len(stack)-1]
				if g[x] == nil {
					continue
				}
				for _, e := range g[x].out {
					if onlyNoHop && e.hop {
						continue
					}
					if !r[a][e.to] {
						r[a][e.to] = true
						stack = append(stack, e.to)
					}
				}
			}
		}
		return r
	}
	r0 := reachVia(true)
	for _, a := range names {
		if r0[a][a] {
			return "rewrite cycle that needs no tuple through " + a
		}
	}
	r := reachVia(false)
	for _, a := range names {
		if g[a].strict && r[a][a] {
			return "intersection or exclusion on a cycle: " + a
		}
	}
	return ""
}

// ---------- structure build with explicit start order ----------

// buildStructure is the node/edge construction part of Build (everything before AssignWeights); the real
// GetOrAddNode and parseRewrite do the work. TestBoundedB4 cross-checks it against the real Build.
func buildStructure(model *openfgav1.AuthorizationModel) (*WeightedAuthorizationModelGraph, error) {
	wgb := NewWeightedAuthorizationModelGraphBuilder()
	wb := NewWeightedAuthorizationModelGraph()
	tds := append([]*openfgav1.TypeDefinition{}, model.GetTypeDefinitions()...)
	sort.Slice(tds, func(i, j int) bool { return tds[i].GetType() < tds[j].GetType() })
	for _, typeDef := range tds {
		wb.GetOrAddNode(typeDef.GetType(), typeDef.GetType(), SpecificType)
		var rels []string
		for r := range typeDef.GetRelations() {
			rels = append(rels, r)
		}
		sort.Strings(rels)
		for _, relation := range rels {
			uniqueLabel := typeDef.GetType() + "#" + relation
			parentNode := wb.GetOrAddNode(uniqueLabel, uniqueLabel, SpecificTypeAndRelation)
			if err := wgb.parseRewrite(wb, parentNode, model, typeDef.GetRelations()[relation], typeDef, relation); err != nil {
				return nil, err
			}
		}
	}
	return wb, nil
}

// canonical names for operator nodes: owner relation + position, independent of ULIDs.
func canonNames(wg *WeightedAuthorizationModelGraph) map[string]string {
	names := map[string]string{}
	var rec func(label, canon string)
	rec = func(label, canon string) {
		if _, done := names[label]; done {
			return
		}
		names[label] = canon
		i := 0
		for _, e := range wg.edges[label] {
			if e.to.nodeType == OperatorNode {
				rec(e.to.uniqueLabel, fmt.Sprintf("%s/%d:%s", canon, i, e.to.label))
				i++
			}
		}
	}
	var labels []string
	for l, n := range wg.nodes {
		if n.nodeType != OperatorNode {
			labels = append(labels, l)
		}
	}
	sort.Strings(labels)
	for _, l := range labels {
		rec(l, l)
	}
	return names
}

func graphDigest(wg *WeightedAuthorizationModelGraph, withWeights bool) string {
	names := canonNames(wg)
	var lines []string
	for l, n := range wg.nodes {
		s := fmt.Sprintf("node %s type=%d label=%s", names[l], n.nodeType, n.label)
		if withWeights {
			ws := append([]string{}, n.wildcards...)
			sort.Strings(ws)
			s += fmt.Sprintf(" w=%v wild=%v", sortedW(n.weights), ws)
		}
		lines = append(lines, s)
		for i, e := range wg.edges[l] {
			s := fmt.Sprintf("edge %s #%d -> %s type=%d ts=%s cond=%v", names[l], i, names[e.to.uniqueLabel], e.edgeType, e.tuplesetRelation, e.conditions)
			if withWeights {
				ws := append([]string{}, e.wildcards...)
				sort.Strings(ws)
				s += fmt.Sprintf(" w=%v wild=%v", sortedW(e.weights), ws)
			}
			lines = append(lines, s)
		}
	}
	sort.Strings(lines)
	return strings.Join(lines, "\n")
}

// specDigest: the graph structure the statement of C10 prescribes, computed from the model only, in the line format
// of graphDigest(wg, false). repeatedTTU reports whether some operator repeats a tuple-to-userset operand (known
// finding F-10a: the builder de-duplicates those edges).
func specDigest(m *openfgav1.AuthorizationModel) (string, bool) {
	var lines []string
	nodes := map[string]string{} // canonical name -> "type=.. label=.."
	repeatedTTU := false
	addNode := func(name string, nt NodeType, label string) {
		if _, ok := nodes[name]; !ok {
			nodes[name] = fmt.Sprintf("node %s type=%d label=%s", name, nt, label)
		}
	}
	hasRel := func(typ, rel string) bool {
		for _, td := range m.GetTypeDefinitions() {
			if td.GetType() == typ {
				if _, ok := td.GetRelations()[rel]; ok {
					return true
				}
			}
		}
		return false
	}
	tds := append([]*openfgav1.TypeDefinition{}, m.GetTypeDefinitions()...)
	sort.Slice(tds, func(i, j int) bool { return tds[i].GetType() < tds[j].GetType() })
	for _, td := range tds {
		addNode(td.GetType(), SpecificType, td.GetType())
		var rels []string
		for r := range td.GetRelations() {
			rels = append(rels, r)
		}
		sort.Strings(rels)
		for _, rel := range rels {
			rn := td.GetType() + "#" + rel
			addNode(rn, SpecificTypeAndRelation, rn)
			edgeIdx := map[string]int{}
			var walk func(owner string, ownerIsRel bool, u *openfgav1.Userset)
			emit := func(owner, to string, et EdgeType, ts string, conds []string) {
				lines = append(lines, fmt.Sprintf("edge %s #%d -> %s type=%d ts=%s cond=%v", owner, edgeIdx[owner], to, et, ts, conds))
				edgeIdx[owner]++
			}
			walk = func(owner string, ownerIsRel bool, u *openfgav1.Userset) {
				switch x := u.GetUserset().(type) {
				case *openfgav1.Userset_This:
					// one direct edge per distinct target, carrying the ordered set of its condition names
					var order []string
					conds := map[string][]string{}
					for _, r := range td.GetMetadata().GetRelations()[rel].GetDirectlyRelatedUserTypes() {
						var tgt string
						switch {
						case r.GetRelationOrWildcard() == nil:
							tgt = r.GetType()
							addNode(tgt, SpecificType, tgt)
						case r.GetWildcard() != nil:
							tgt = r.GetType() + ":*"
							addNode(tgt, SpecificTypeWildcard, tgt)
						default:
							tgt = r.GetType() + "#" + r.GetRelation()
							addNode(tgt, SpecificTypeAndRelation, tgt)
						}
						c := r.GetCondition()
						if c == "" {
							c = NoCond
						}
						if _, ok := conds[tgt]; !ok {
							order = append(order, tgt)
						}
						dup := false
						for _, e := range conds[tgt] {
							if e == c {
								dup = true
							}
						}
						if !dup {
							conds[tgt] = append(conds[tgt], c)
						}
					}
					for _, tgt := range order {
						emit(owner, tgt, DirectEdge, "", conds[tgt])
					}
				case *openfgav1.Userset_ComputedUserset:
					tgt := td.GetType() + "#" + x.ComputedUserset.GetRelation()
					addNode(tgt, SpecificTypeAndRelation, tgt)
					et := RewriteEdge
					if ownerIsRel {
						et = ComputedEdge
					}
					emit(owner, tgt, et, "", []string{NoCond})
				case *openfgav1.Userset_TupleToUserset:
					ts := x.TupleToUserset.GetTupleset().GetRelation()
					cr := x.TupleToUserset.GetComputedUserset().GetRelation()
					seen := map[string]bool{}
					for _, p := range td.GetMetadata().GetRelations()[ts].GetDirectlyRelatedUserTypes() {
						if seen[p.GetType()] || !hasRel(p.GetType(), cr) {
							continue
						}
						seen[p.GetType()] = true
						tgt := p.GetType() + "#" + cr
						addNode(tgt, SpecificTypeAndRelation, tgt)
						c := p.GetCondition()
						if c == "" {
							c = NoCond
						}
						emit(owner, tgt, TTUEdge, td.GetType()+"#"+ts, []string{c})
					}
				default:
					cs, op := kids(u)
					// canonical operator name: owner/<index among operator children>:<op>
					k := 0
					for key := range nodes {
						if strings.HasPrefix(key, owner+"/") && strings.Count(key, "/") == strings.Count(owner, "/")+1 {
							k++
						}
					}
					name := fmt.Sprintf("%s/%d:%s", owner, k, op)
					nodes[name] = fmt.Sprintf("node %s type=%d label=%s", name, OperatorNode, op)
					emit(owner, name, RewriteEdge, "", []string{NoCond})
					seenTTU := map[string]bool{}
					for _, c := range cs {
						if t, ok := c.GetUserset().(*openfgav1.Userset_TupleToUserset); ok {
							key := t.TupleToUserset.GetComputedUserset().GetRelation() + " from " + t.TupleToUserset.GetTupleset().GetRelation()
							if seenTTU[key] {
								repeatedTTU = true
							}
							seenTTU[key] = true
						}
						walk(name, false, c)
					}
				}
			}
			walk(rn, true, td.GetRelations()[rel])
		}
	}
	for _, l := range nodes {
		lines = append(lines, l)
	}
	sort.Strings(lines)
	return strings.Join(lines, "\n"), repeatedTTU
}

func sortedW(w map[string]int) string {
	var ks []string
	for k := range w {
		ks = append(ks, k)
	}
	sort.Strings(ks)
	var ps []string
	for _, k := range ks {
		ps = append(ps, fmt.Sprintf("%s:%d", k, w[k]))
	}
	return "{" + strings.Join(ps, " ") + "}"
}

func firstDiff(want, got string) string {
	w, g := strings.Split(want, "\n"), strings.Split(got, "\n")
	ws, gs := map[string]bool{}, map[string]bool{}
	for _, l := range w {
		ws[l] = true
	}
	for _, l := range g {
		gs[l] = true
	}
	var out []string
	for _, l := range w {
		if !gs[l] && len(out) < 3 {
			out = append(out, "  missing: "+l)
		}
	}
	for _, l := range g {
		if !ws[l] && len(out) < 6 {
			out = append(out, "  unexpected: "+l)
		}
	}
	return strings.Join(out, "\n")
}

func permutations(xs []string, limit int) [][]string {
	var out [][]string
	var rec func(k int)
	a := append([]string{}, xs...)
	rec = func(k int) {
		if limit > 0 && len(out) >= limit {
			return
		}
		if k == len(a) {
			out = append(out, append([]string{}, a...))
			return
		}
		for i := k; i < len(a); i++ {
			a[k], a[i] = a[i], a[k]
			rec(k + 1)
			a[k], a[i] = a[i], a[k]
		}
	}
	rec(0)
	return out
}

// ---------- the check ----------

type b4 struct {
	reps          map[string]*boundedReport
	sampledOrders bool
}

func (b *b4) checkModel(g gmodel, maxOrders int, rng *rand.Rand) {
	text := g.dsl()
	model, err := transformer.TransformDSLToProto(text)
	if err != nil {
		return // not a valid DSL model (e.g. reference to an undefined relation is fine for the parser; syntax is ours)
	}
	b.checkProto(g.id, model, maxOrders, rng)
	// the same model with the operands of every root union / intersection in reverse order: not expressible in DSL when a
	// direct assignment is among them (the DSL wants it first), but a valid JSON / protobuf model
	if rev, changed := reverseRootOperands(model); changed {
		b.checkProto(g.id+" [root operands reversed]", rev, maxOrders, rng)
	}
	// ... and with every relation of doc wrapped into a union with that single operand (JSON / protobuf only): an operator
	// occurrence has its node whatever the number of operands
	b.checkProto(g.id+" [wrapped in single-operand unions]", wrapInSingleUnions(model), maxOrders, rng)
}

func wrapInSingleUnions(m *openfgav1.AuthorizationModel) *openfgav1.AuthorizationModel {
	c := proto.Clone(m).(*openfgav1.AuthorizationModel)
	for _, td := range c.GetTypeDefinitions() {
		if td.GetType() != "doc" {
			continue
		}
		for name, u := range td.GetRelations() {
			if name == "parent" {
				continue
			}
			td.Relations[name] = &openfgav1.Userset{Userset: &openfgav1.Userset_Union{Union: &openfgav1.Usersets{Child: []*openfgav1.Userset{u}}}}
		}
	}
	return c
}

func reverseRootOperands(m *openfgav1.AuthorizationModel) (*openfgav1.AuthorizationModel, bool) {
	c := proto.Clone(m).(*openfgav1.AuthorizationModel)
	changed := false
	for _, td := range c.GetTypeDefinitions() {
		for _, u := range td.GetRelations() {
			var kids []*openfgav1.Userset
			switch x := u.GetUserset().(type) {
			case *openfgav1.Userset_Union:
				kids = x.Union.GetChild()
			case *openfgav1.Userset_Intersection:
				kids = x.Intersection.GetChild()
			}
			if len(kids) > 1 {
				for i, j := 0, len(kids)-1; i < j; i, j = i+1, j-1 {
					kids[i], kids[j] = kids[j], kids[i]
				}
				changed = true
			}
		}
	}
	return c, changed
}

func (b *b4) checkProto(id string, model *openfgav1.AuthorizationModel, maxOrders int, rng *rand.Rand) {
	sem := newSemantics(model).semantic()
	before := proto.Clone(model)
	// reference: the real Build, a few times (map order sampled)
	verdicts := map[string]int{}
	var firstAccepted *WeightedAuthorizationModelGraph
	for k := 0; k < 3; k++ {
		wg, err := NewWeightedAuthorizationModelGraphBuilder().Build(model)
		if err != nil {
			if !(errors.Is(err, ErrModelCycle) || errors.Is(err, ErrTupleCycle) || errors.Is(err, ErrInvalidModel)) {
				b.reps["C05"].violation("error-without-sentinel", id, "error does not wrap one of the three sentinels: %v", err)
			}
			verdicts["rejected"]++
		} else {
			verdicts["accepted"]++
			if firstAccepted == nil {
				firstAccepted = wg
			}
		}
	}
	if !proto.Equal(before, model) {
		b.reps["C13"].violation("input-modified", id, "Build modified the model")
		b.reps["C10"].violation("input-modified", id, "Build modified the model")
	}
	// explicit start orders
	base, err := buildStructure(model)
	if err != nil {
		// structural rejection (tuple-to-userset clauses): must be not well-founded
		if sem.wellFounded {
			b.reps["C05"].violation(sem.class("rejected-wellfounded"), id, "well-founded model rejected while building: %v", err)
		}
		for _, p := range []string{"C04", "C05", "C06", "C10", "C11"} {
			b.reps[p].Cases++
		}
		return
	}
	// C10: structure against the statement
	if want, repeated := specDigest(model); want != graphDigest(base, false) {
		cls := "structure-differs"
		if repeated {
			cls = "structure-differs/repeated-tuple-to-userset-operand"
		}
		b.reps["C10"].violation(cls, id, "graph structure differs from the rewrite:\n%s", firstDiff(want, graphDigest(base, false)))
	}
	if firstAccepted != nil {
		if graphDigest(base, false) != graphDigest(firstAccepted, false) {
			b.reps["C10"].violation("harness-not-faithful", id, "structure built by the harness copy differs from Build (harness not faithful)")
		}
	}
	names := canonNames(base)
	// candidate start nodes whose order is enumerated: the relations of doc and all operator nodes; the relations of
	// the fixed helper types (folder, group) follow in name order
	var roots, rest []string
	for l, n := range base.nodes {
		if n.nodeType == OperatorNode || (n.nodeType == SpecificTypeAndRelation && strings.HasPrefix(l, "doc#")) {
			roots = append(roots, names[l])
		} else if n.nodeType == SpecificTypeAndRelation {
			rest = append(rest, names[l])
		}
	}
	sort.Strings(roots)
	sort.Strings(rest)
	fact := 1
	for i := 2; i <= len(roots); i++ {
		fact *= i
		if fact > 1000000 {
			break
		}
	}
	var orders [][]string
	if maxOrders <= 0 && fact <= 5040 || maxOrders > 0 && fact <= maxOrders {
		orders = permutations(roots, 0)
	} else {
		n := maxOrders
		if n <= 0 {
			n = 5040
		}
		seen := map[string]bool{}
		for len(orders) < n {
			pm := append([]string{}, roots...)
			rng.Shuffle(len(pm), func(i, j int) { pm[i], pm[j] = pm[j], pm[i] })
			k := strings.Join(pm, "|")
			if !seen[k] {
				seen[k] = true
				orders = append(orders, pm)
			}
		}
		b.sampledOrders = true
	}
	for i := range orders {
		orders[i] = append(orders[i], rest...)
	}
	var digests = map[string]string{}
	for _, ord := range orders {
		wg, _ := buildStructure(model)
		nm := canonNames(wg)
		rev := map[string]string{}
		for l, c := range nm {
			rev[c] = l
		}
		var order []string
		for _, c := range ord {
			order = append(order, rev[c])
		}
		// terminal nodes last (they are skipped anyway)
		for l, n := range wg.nodes {
			if n.nodeType == SpecificType || n.nodeType == SpecificTypeWildcard {
				order = append(order, l)
			}
		}
		err := wg.VerifAssignWeightsInOrder(order)
		for _, p := range []string{"C04", "C05", "C06", "C10", "C11"} {
			b.reps[p].Cases++
		}
		ordS := strings.Join(ord, " < ")
		if err != nil {
			verdicts["rejected"]++
			digests["rejected"] = ordS
			if !(errors.Is(err, ErrModelCycle) || errors.Is(err, ErrTupleCycle) || errors.Is(err, ErrInvalidModel)) {
				b.reps["C05"].violation("error-without-sentinel", id, "error does not wrap one of the three sentinels: %v", err)
			}
			if sem.wellFounded {
				b.reps["C05"].violation(sem.class("rejected-wellfounded"), id, "well-founded model rejected (%v) in start order %s", err, ordS)
			}
			continue
		}
		verdicts["accepted"]++
		if !sem.wellFounded {
			b.reps["C05"].violation(sem.class("accepted-not-wellfounded"), id, "model that is not well-founded (%s) accepted in start order %s", sem.reason, ordS)
			continue
		}
		d := graphDigest(wg, true)
		digests[d] = ordS
		b.checkWeights(id, ordS, wg, nm, sem)
	}
	if verdicts["accepted"] > 0 && verdicts["rejected"] > 0 {
		b.reps["C06"].violation(sem.class("order-dependent-verdict"), id, "verdict depends on the traversal order: accepted %d times, rejected %d times", verdicts["accepted"], verdicts["rejected"])
	}
	delete(digests, "rejected")
	if len(digests) > 1 {
		var os []string
		for _, o := range digests {
			os = append(os, o)
		}
		sort.Strings(os)
		b.reps["C06"].violation(sem.class("order-dependent-weights"), id, "weights/wildcards depend on the traversal order, e.g. orders %s vs %s", os[0], os[1])
	}
	if sem.wellFounded {
		b.reps["C04"].sample(id)
	}
}

func (b *b4) checkWeights(id, ord string, wg *WeightedAuthorizationModelGraph, nm map[string]string, sem semResult) {
	for l, n := range wg.nodes {
		for k := range n.weights {
			if strings.HasPrefix(k, "R#") {
				b.reps["C04"].violation("placeholder-visible", id, "unresolved cycle placeholder %s visible on node %s (order %s)", k, nm[l], ord)
			}
		}
		if n.nodeType == SpecificTypeAndRelation {
			want, known := sem.W[l]
			if !known {
				continue // userset of an undeclared relation
			}
			if len(n.weights) == 0 {
				b.reps["C04"].violation(sem.class("empty-weights"), id, "relation %s left with an empty weight map (order %s)", l, ord)
			} else if sortedW(n.weights) != sortedW(want) {
				b.reps["C04"].violation(sem.class("weights-differ"), id, "weights of %s are %s, statement gives %s (order %s)", l, sortedW(n.weights), sortedW(want), ord)
			}
			var ws, ww []string
			ws = append(ws, n.wildcards...)
			sort.Strings(ws)
			for t := range sem.WW[l] {
				ww = append(ww, t)
			}
			sort.Strings(ww)
			if fmt.Sprint(ws) != fmt.Sprint(ww) {
				b.reps["C11"].violation(sem.class("wildcards-differ"), id, "wildcards of %s are %v, reachable public types are %v (order %s)", l, ws, ww, ord)
			}
			for i := 1; i < len(ws); i++ {
				if ws[i] == ws[i-1] {
					b.reps["C11"].violation("duplicate-wildcard", id, "duplicate wildcard %s on %s", ws[i], l)
				}
			}
		}
		for _, e := range wg.edges[l] {
			for k := range e.weights {
				if strings.HasPrefix(k, "R#") {
					b.reps["C04"].violation("placeholder-visible", id, "unresolved cycle placeholder %s visible on an edge of %s (order %s)", k, nm[l], ord)
				}
			}
			// every edge weight equals its target's weight plus one if the edge is a hop
			hop := e.edgeType == DirectEdge || e.edgeType == TTUEdge
			tw := e.to.weights
			if e.to.nodeType == SpecificType {
				tw = map[string]int{e.to.uniqueLabel: 0}
			} else if e.to.nodeType == SpecificTypeWildcard {
				tw = map[string]int{strings.TrimSuffix(e.to.uniqueLabel, ":*"): 0}
			}
			exp := map[string]int{}
			for k, v := range tw {
				if hop {
					v = plus1(v)
				}
				exp[k] = v
			}
			if sortedW(exp) != sortedW(e.weights) {
				b.reps["C04"].violation("edge-weight-not-target-plus-hop", id, "edge %s -> %s has weights %s, target plus hop gives %s (order %s)", nm[l], nm[e.to.uniqueLabel], sortedW(e.weights), sortedW(exp), ord)
			}
			// edge wildcards are those of its target ({T} for an edge into T:*)
			var ew, tws []string
			ew = append(ew, e.wildcards...)
			sort.Strings(ew)
			if e.to.nodeType == SpecificTypeWildcard {
				tws = []string{strings.TrimSuffix(e.to.uniqueLabel, ":*")}
			} else {
				tws = append(tws, e.to.wildcards...)
				sort.Strings(tws)
			}
			if fmt.Sprint(ew) != fmt.Sprint(tws) {
				b.reps["C11"].violation("edge-wildcards-differ-from-target", id, "edge %s -> %s has wildcards %v, its target has %v (order %s)", nm[l], nm[e.to.uniqueLabel], ew, tws, ord)
			}
		}
	}
}

// leaf pool for relation definitions of type doc with relations `rels`.
func leafPool(rels []string) []rw {
	pool := []rw{
		{kind: 'd', restr: []string{"user"}},
		{kind: 'd', restr: []string{"user:*"}},
		{kind: 'd', restr: []string{"employee", "group#member"}},
	}
	for _, r := range rels {
		pool = append(pool, rw{kind: 'd', restr: []string{"user", "doc#" + r}})
		pool = append(pool, rw{kind: 'c', rel: r})
		pool = append(pool, rw{kind: 't', rel: r, ts: "parent"})
	}
	return pool
}

// richDef: one definition of the cycle-rich family.
func richDef(rng *rand.Rand, rels []string) rw {
	direct := func() rw {
		var restr []string
		switch rng.Intn(4) {
		case 0:
			restr = append(restr, "user")
		case 1:
			restr = append(restr, "user:*")
		}
		perm := rng.Perm(len(rels))
		n := 1 + rng.Intn(2)
		for _, i := range perm[:n] {
			restr = append(restr, "doc#"+rels[i])
		}
		return rw{kind: 'd', restr: restr}
	}
	leaf := func() rw {
		r := rels[rng.Intn(len(rels))]
		if rng.Intn(2) == 0 {
			return rw{kind: 'c', rel: r}
		}
		return rw{kind: 't', rel: r, ts: "parent"}
	}
	switch rng.Intn(5) {
	case 0, 1:
		return direct()
	case 2:
		kids := []rw{direct(), leaf()}
		if rng.Intn(2) == 0 {
			kids = append(kids, leaf())
		}
		return rw{op: "or", kids: kids}
	case 3:
		return rw{op: "or", kids: []rw{leaf(), leaf(), {op: "or", kids: []rw{leaf(), leaf()}}}}
	}
	return rw{op: "or", kids: []rw{leaf(), leaf()}}
}

func defPool(rels []string) []rw {
	leaves := leafPool(rels)
	pool := append([]rw{}, leaves...)
	for _, op := range []string{"or", "and", "but not"} {
		for _, a := range leaves {
			for _, c := range leaves {
				if a.kind == 'd' && c.kind == 'd' {
					continue // two direct assignments in one definition are not DSL
				}
				if c.kind == 'd' {
					continue // direct assignment must be first
				}
				pool = append(pool, rw{op: op, kids: []rw{a, c}})
			}
		}
	}
	return pool
}

func TestBoundedB4(t *testing.T) {
	b := &b4{reps: map[string]*boundedReport{}}
	scope := "B4: type doc with relations a, b (thorough: a, b, c) and parent: [doc] | [folder] | [doc, folder]; each definition a leaf {[user], [user:*], [employee, group#member], [user, doc#r], r, r from parent} or one binary or/and/but-not over leaves; x every order of depth-first start nodes (relations and operators)"
	for _, p := range []string{"C04", "C05", "C06", "C10", "C11", "C13"} {
		b.reps[p] = &boundedReport{Property: p, Check: "B4-all-orders", Function: "(*WeightedAuthorizationModelGraphBuilder).Build / AssignWeights / calculateNodeWeight / calculateEdgeWeight", Scope: scope}
	}
	rng := rand.New(rand.NewSource(seed() + 1))
	rels := []string{"a", "b"}
	pool := defPool(rels)
	parentsOpts := [][]string{{"doc"}, {"folder"}, {"doc", "folder"}}
	type job struct{ i, j, p int }
	var jobs []job
	for i := range pool {
		for j := range pool {
			for p := range parentsOpts {
				jobs = append(jobs, job{i, j, p})
			}
		}
	}
	exhaustive := thorough()
	sample := 2500
	if thorough() {
		sample = len(jobs)
		if sample > 60000 {
			sample = 60000
			exhaustive = false
		}
	}
	rng.Shuffle(len(jobs), func(x, y int) { jobs[x], jobs[y] = jobs[y], jobs[x] })
	if sample < len(jobs) {
		jobs = jobs[:sample]
	}
	// regression shapes that must always be included (known findings and seeded defects live here)
	fixed := []gmodel{
		{id: "fixed:self-computed", parents: []string{"folder"}, rels: map[string]rw{"a": {kind: 'c', rel: "a"}, "b": {kind: 'd', restr: []string{"user"}}}},
		{id: "fixed:two-cycle", parents: []string{"folder"}, rels: map[string]rw{"a": {kind: 'c', rel: "b"}, "b": {kind: 'c', rel: "a"}}},
		{id: "fixed:union-self", parents: []string{"doc"}, rels: map[string]rw{"a": {op: "or", kids: []rw{{kind: 'd', restr: []string{"user"}}, {kind: 'c', rel: "a"}}}, "b": {kind: 'd', restr: []string{"user"}}}},
		{id: "fixed:interlocking-cycles", parents: []string{"doc"}, rels: map[string]rw{
			"a": {op: "or", kids: []rw{{kind: 'd', restr: []string{"user"}}, {kind: 't', rel: "b", ts: "parent"}}},
			"b": {op: "or", kids: []rw{{kind: 'c', rel: "c"}, {kind: 'c', rel: "d"}}},
			"c": {kind: 'c', rel: "e"}, "d": {kind: 'c', rel: "e"},
			"e": {op: "or", kids: []rw{{kind: 't', rel: "a", ts: "parent"}, {kind: 't', rel: "b", ts: "parent"}}}}},
		{id: "fixed:userset-into-rewrite-cycle", parents: []string{"folder"}, rels: map[string]rw{
			"a": {op: "or", kids: []rw{{kind: 'd', restr: []string{"user"}}, {kind: 'c', rel: "b"}}}, "b": {kind: 'c', rel: "a"},
			"c": {kind: 'd', restr: []string{"doc#a"}}}},
		{id: "fixed:wildcards-in-cycle", parents: []string{"doc"}, rels: map[string]rw{
			"a": {op: "or", kids: []rw{{kind: 'd', restr: []string{"user:*"}}, {kind: 't', rel: "b", ts: "parent"}}},
			"b": {op: "or", kids: []rw{{kind: 'd', restr: []string{"employee:*"}}, {kind: 'c', rel: "a"}}}}},
		// a parent type listed twice (plain and conditioned) FOLLOWED by another parent type: every parent type needs its tuple-to-userset edge
		{id: "fixed:repeated-parent-type", parents: []string{"folder", "folder with cx", "doc"}, rels: map[string]rw{"a": {kind: 'd', restr: []string{"employee"}}, "b": {kind: 't', rel: "a", ts: "parent"}}},
		{id: "fixed:repeated-restriction", parents: []string{"folder"}, rels: map[string]rw{"a": {kind: 'd', restr: []string{"user", "user with cx", "employee"}}, "b": {kind: 'c', rel: "a"}}},
		{id: "fixed:repeated-operand", parents: []string{"folder"}, rels: map[string]rw{
			"a": {kind: 'd', restr: []string{"user"}}, "b": {op: "or", kids: []rw{{kind: 'c', rel: "a"}, {kind: 'c', rel: "a"}}},
			"c": {op: "but not", kids: []rw{{kind: 'c', rel: "a"}, {kind: 'c', rel: "a"}}}}},
	}
	maxOrders := 24
	if thorough() {
		maxOrders = 720
	}
	for _, g := range fixed {
		b.checkModel(g, 0, rng)
	}
	for _, jb := range jobs {
		g := gmodel{parents: parentsOpts[jb.p], rels: map[string]rw{"a": pool[jb.i], "b": pool[jb.j]}}
		g.id = fmt.Sprintf("a: %s; b: %s; parent: %v", g.rels["a"].text(), g.rels["b"].text(), g.parents)
		b.checkModel(g, maxOrders, rng)
	}
	// cycle-rich family: four relations whose definitions are direct usersets of each other, computed usersets and
	// tuple-to-usersets combined by unions (one level of nesting) - nested and interlocking tuple cycles, nodes reached a
	// second time while several cycles are open (where the weight patching and the wildcard propagation live)
	nRich := 600
	if thorough() {
		nRich = 20000
	}
	rels4 := []string{"a", "b", "c", "d"}
	for k := 0; k < nRich; k++ {
		g := gmodel{parents: [][]string{{"doc"}, {"doc"}, {"doc", "folder"}}[rng.Intn(3)], rels: map[string]rw{}}
		var parts []string
		for _, r := range rels4 {
			g.rels[r] = richDef(rng, rels4)
			parts = append(parts, r+": "+g.rels[r].text())
		}
		g.id = "rich " + strings.Join(parts, "; ") + fmt.Sprintf("; parent: %v", g.parents)
		b.checkModel(g, maxOrders, rng)
	}
	if thorough() {
		// three relations, sampled
		rels3 := []string{"a", "b", "c"}
		pool3 := defPool(rels3)
		for k := 0; k < 20000; k++ {
			g := gmodel{parents: parentsOpts[rng.Intn(3)], rels: map[string]rw{"a": pool3[rng.Intn(len(pool3))], "b": pool3[rng.Intn(len(pool3))], "c": pool3[rng.Intn(len(pool3))]}}
			g.id = fmt.Sprintf("a: %s; b: %s; c: %s; parent: %v", g.rels["a"].text(), g.rels["b"].text(), g.rels["c"].text(), g.parents)
			b.checkModel(g, 120, rng)
		}
	}
	for _, p := range []string{"C04", "C05", "C06", "C10", "C11", "C13"} {
		r := b.reps[p]
		r.Exhaustive = exhaustive && !b.sampledOrders
		r.Distinct = len(jobs) + len(fixed)
		if p == "C13" {
			r.Cases = r.Distinct
		}
		r.emit()
	}
}
