package transformer_test

// C15 bounded: every string over the statement's alphabet up to a bounded length, as a manifest entry (single-quoted
// YAML scalar, with and without the .fga extension), through the real TransformModFile.

import (
	"fmt"
	"net/url"
	"strings"
	"testing"

	"github.com/openfga/language/pkg/go/transformer"
)

func safePath(p string) string {
	switch {
	case strings.HasPrefix(p, "/"):
		return "absolute"
	case strings.Contains(p, "\\"):
		return "backslash"
	case !strings.HasSuffix(p, ".fga"):
		return "extension"
	}
	for _, seg := range strings.Split(p, "/") {
		if seg == ".." {
			return "dotdot-segment"
		}
	}
	return ""
}

func TestBoundedC15(t *testing.T) {
	alphabet := []string{".", "/", "\\", "%", "2", "5", "e", "E", "f", "F", "c", "C", "+", "a", "g"}
	maxLen := 4
	if thorough() {
		maxLen = 5
	}
	r := &boundedReport{Property: "C15", Check: "C15-path-strings", Function: "TransformModFile",
		Scope: fmt.Sprintf("every string over {. / \\ %% 2 5 e E f F c C + a g} of length <= %d, alone and followed by .fga, as single-quoted manifest entries in batches of 40 (order and one-error-per-entry are checked per batch)", maxLen), Exhaustive: true}
	var all []string
	var rec func(cur string, n int)
	rec = func(cur string, n int) {
		all = append(all, cur, cur+".fga")
		if n == 0 {
			return
		}
		for _, a := range alphabet {
			rec(cur+a, n-1)
		}
	}
	rec("", maxLen)
	for start := 0; start < len(all); start += 40 {
		batch := all[start:min(start+40, len(all))]
		var sb strings.Builder
		sb.WriteString("schema: '1.2'\ncontents:\n")
		for _, s := range batch {
			fmt.Fprintf(&sb, "  - '%s'\n", s)
		}
		r.Cases += len(batch)
		r.Distinct += len(batch)
		mf, err := transformer.TransformModFile(sb.String())
		id := fmt.Sprintf("batch starting at %q", batch[0])
		// per entry (alone in a manifest): the statement is one-directional - an entry that breaks a rule must be
		// rejected, an accepted entry must come back safe (and verbatim when written without % + \); rejecting a
		// harmless entry such as '.../x.fga' is not a violation
		rejected := 0
		var accepted []string
		for _, s := range batch {
			one, oerr := transformer.TransformModFile("schema: '1.2'\ncontents:\n  - '" + s + "'\n")
			dec, uerr := url.QueryUnescape(s)
			norm := strings.ReplaceAll(dec, "\\", "/")
			offending := uerr != nil || safePath(norm) != ""
			if oerr != nil {
				rejected++
				if one != nil {
					r.violation("result-with-error", fmt.Sprintf("%q", s), "error together with a result")
				}
				continue
			}
			if offending {
				r.violation("offending-entry-accepted", fmt.Sprintf("%q", s), "entry breaks a rule (%s) but is accepted as %q", safePath(norm), one.Contents.Value[0].Value)
			}
			pth := one.Contents.Value[0].Value
			accepted = append(accepted, pth)
			if why := safePath(pth); why != "" {
				r.violation("unsafe-path-returned/"+why, fmt.Sprintf("%q", s), "returned path %q", pth)
			}
			if !strings.ContainsAny(s, "%+\\") && pth != s {
				r.violation("not-verbatim", fmt.Sprintf("%q", s), "returned %q", pth)
			}
			if one.Schema.Value != "1.2" {
				r.violation("schema", fmt.Sprintf("%q", s), "schema %q", one.Schema.Value)
			}
		}
		// the batch: rejected iff some entry is rejected alone, one error per such entry, accepted entries in manifest
		// order with correct positions
		if (err != nil) != (rejected > 0) {
			r.violation("batch-verdict", id, "batch accepted=%v although %d of its entries are rejected alone", err == nil, rejected)
			continue
		}
		if err != nil {
			if mf != nil {
				r.violation("result-with-error", id, "error together with a result")
			}
			me, ok := err.(*transformer.ModFileValidationMultipleError)
			if !ok || len(me.Errors) != rejected {
				n := -1
				if ok {
					n = len(me.Errors)
				}
				r.violation("errors-per-entry", id, "%d errors for %d offending entries", n, rejected)
			}
			continue
		}
		var got []string
		for i, c := range mf.Contents.Value {
			got = append(got, c.Value)
			if c.Line != 2+i || c.Column != 4 {
				r.violation("position", id, "entry %d reported at line %d column %d, it stands at line %d column 4", i, c.Line, c.Column, 2+i)
			}
		}
		if strings.Join(got, "\n") != strings.Join(accepted, "\n") {
			r.violation("paths-or-order", id, "returned %q, manifest order gives %q", got, accepted)
		}
	}
	r.sample("'%2e%2e/a.fga' must be rejected; 'a/b.fga' returned verbatim")
	r.emit(t)
}
