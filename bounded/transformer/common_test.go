package transformer_test

// Shared machinery of the bounded stand-ins (DESIGN.md 2.7) for package transformer: model generator B1, executable
// specification functions written from the property statements, result reporting.

import (
	"encoding/json"
	"fmt"
	"os"
	"sort"
	"strings"
	"testing"

	openfgav1 "github.com/openfga/api/proto/openfga/v1"
)

// ---------- reporting ----------

type boundedReport struct {
	Property   string   `json:"property"`
	Check      string   `json:"check"`
	Function   string   `json:"function"`
	Scope      string   `json:"scope"`
	Cases      int      `json:"cases"`
	Distinct   int      `json:"distinct_nontrivial"`
	Exhaustive bool     `json:"exhaustive"`
	Violations []string       `json:"violations"`
	ByClass    map[string]int `json:"violations_by_class"`
	Samples    []string       `json:"samples"`
	seen       map[string]bool
}

// violation records "[class] input :: message". The class (kind of failure) is what /verif/known_findings.jsonl refers
// to; at most 12 violations are kept per class, all are counted.
func (r *boundedReport) violation(class, id string, format string, a ...any) {
	if r.ByClass == nil {
		r.ByClass = map[string]int{}
		r.seen = map[string]bool{}
	}
	key := class + "|" + id
	if r.seen[key] {
		return
	}
	r.seen[key] = true
	r.ByClass[class]++
	if r.ByClass[class] <= 12 {
		r.Violations = append(r.Violations, "["+class+"] "+id+" :: "+fmt.Sprintf(format, a...))
	}
}

func (r *boundedReport) sample(s string) {
	if len(r.Samples) < 4 {
		r.Samples = append(r.Samples, s)
	}
}

func (r *boundedReport) emit(t *testing.T) {
	data, _ := json.Marshal(r)
	fmt.Printf("GOVC-BOUNDED %s\n", data)
}

func thorough() bool { return os.Getenv("VERIF_TIER") == "thorough" }

// ---------- rewrite trees ----------

func this() *openfgav1.Userset {
	return &openfgav1.Userset{Userset: &openfgav1.Userset_This{This: &openfgav1.DirectUserset{}}}
}
func computed(r string) *openfgav1.Userset {
	return &openfgav1.Userset{Userset: &openfgav1.Userset_ComputedUserset{ComputedUserset: &openfgav1.ObjectRelation{Relation: r}}}
}
func ttu(r, ts string) *openfgav1.Userset {
	return &openfgav1.Userset{Userset: &openfgav1.Userset_TupleToUserset{TupleToUserset: &openfgav1.TupleToUserset{
		ComputedUserset: &openfgav1.ObjectRelation{Relation: r}, Tupleset: &openfgav1.ObjectRelation{Relation: ts}}}}
}
func union(cs ...*openfgav1.Userset) *openfgav1.Userset {
	return &openfgav1.Userset{Userset: &openfgav1.Userset_Union{Union: &openfgav1.Usersets{Child: cs}}}
}
func inter(cs ...*openfgav1.Userset) *openfgav1.Userset {
	return &openfgav1.Userset{Userset: &openfgav1.Userset_Intersection{Intersection: &openfgav1.Usersets{Child: cs}}}
}
func diff(b, s *openfgav1.Userset) *openfgav1.Userset {
	return &openfgav1.Userset{Userset: &openfgav1.Userset_Difference{Difference: &openfgav1.Difference{Base: b, Subtract: s}}}
}

func treeString(u *openfgav1.Userset) string {
	switch x := u.GetUserset().(type) {
	case *openfgav1.Userset_This:
		return "this"
	case *openfgav1.Userset_ComputedUserset:
		return x.ComputedUserset.GetRelation()
	case *openfgav1.Userset_TupleToUserset:
		return x.TupleToUserset.GetComputedUserset().GetRelation() + " from " + x.TupleToUserset.GetTupleset().GetRelation()
	case *openfgav1.Userset_Union:
		var ps []string
		for _, c := range x.Union.GetChild() {
			ps = append(ps, treeString(c))
		}
		return "or(" + strings.Join(ps, ", ") + ")"
	case *openfgav1.Userset_Intersection:
		var ps []string
		for _, c := range x.Intersection.GetChild() {
			ps = append(ps, treeString(c))
		}
		return "and(" + strings.Join(ps, ", ") + ")"
	case *openfgav1.Userset_Difference:
		return "butnot(" + treeString(x.Difference.GetBase()) + ", " + treeString(x.Difference.GetSubtract()) + ")"
	}
	return "?"
}

// tr is a rewrite tree shape: leaf >= 0 for leaves, otherwise op with kids.
type tr struct {
	op   string
	leaf int
	kids []tr
}

func (t tr) depth() int {
	d := 0
	for _, k := range t.kids {
		if kd := k.depth() + 1; kd > d {
			d = kd
		}
	}
	return d
}

// genShapes enumerates every tree of operator depth <= depth; operators at the root have 2..width operands, nested
// operators are binary; leaves are numbered 0..nleaves-1.
func genShapes(depth, width, nleaves int) []tr {
	var byDepth [][]tr
	var lv []tr
	for i := 0; i < nleaves; i++ {
		lv = append(lv, tr{leaf: i})
	}
	byDepth = append(byDepth, lv)
	for d := 1; d <= depth; d++ {
		var pool []tr
		for _, l := range byDepth {
			pool = append(pool, l...)
		}
		var next []tr
		maxW := 2
		if d == depth {
			maxW = width // the widest operators sit at the root level only
		}
		var rec func(n int, cur []tr)
		rec = func(n int, cur []tr) {
			if n == 0 {
				ok := false
				for _, k := range cur {
					if k.depth() == d-1 {
						ok = true
					}
				}
				if !ok {
					return
				}
				kids := append([]tr{}, cur...)
				next = append(next, tr{op: "or", leaf: -1, kids: kids}, tr{op: "and", leaf: -1, kids: kids})
				if len(kids) == 2 {
					next = append(next, tr{op: "but not", leaf: -1, kids: kids})
				}
				return
			}
			for _, p := range pool {
				rec(n-1, append(cur, p))
			}
		}
		for w := 2; w <= maxW; w++ {
			rec(w, nil)
		}
		byDepth = append(byDepth, next)
	}
	var out []tr
	for _, l := range byDepth {
		out = append(out, l...)
	}
	return out
}

func (t tr) build(leaves []func() *openfgav1.Userset) *openfgav1.Userset {
	if t.leaf >= 0 {
		return leaves[t.leaf]()
	}
	var ks []*openfgav1.Userset
	for _, k := range t.kids {
		ks = append(ks, k.build(leaves))
	}
	switch t.op {
	case "or":
		return union(ks...)
	case "and":
		return inter(ks...)
	}
	return diff(ks[0], ks[1])
}

func stdLeaves() []func() *openfgav1.Userset {
	return []func() *openfgav1.Userset{
		this,
		func() *openfgav1.Userset { return computed("r1") },
		func() *openfgav1.Userset { return ttu("r2", "parent") },
	}
}

func ref(t string) *openfgav1.RelationReference { return &openfgav1.RelationReference{Type: t} }
func refRel(t, r string) *openfgav1.RelationReference {
	return &openfgav1.RelationReference{Type: t, RelationOrWildcard: &openfgav1.RelationReference_Relation{Relation: r}}
}
func refWild(t string) *openfgav1.RelationReference {
	return &openfgav1.RelationReference{Type: t, RelationOrWildcard: &openfgav1.RelationReference_Wildcard{Wildcard: &openfgav1.Wildcard{}}}
}
func refCond(t, c string) *openfgav1.RelationReference {
	return &openfgav1.RelationReference{Type: t, Condition: c}
}

// modelWith builds the standard B1 model around one relation definition x.
func modelWith(x *openfgav1.Userset, restr []*openfgav1.RelationReference, withCondition bool) *openfgav1.AuthorizationModel {
	m := &openfgav1.AuthorizationModel{SchemaVersion: "1.1", TypeDefinitions: []*openfgav1.TypeDefinition{
		{Type: "user"},
		{Type: "group", Relations: map[string]*openfgav1.Userset{"member": this()},
			Metadata: &openfgav1.Metadata{Relations: map[string]*openfgav1.RelationMetadata{"member": {DirectlyRelatedUserTypes: []*openfgav1.RelationReference{ref("user")}}}}},
		{Type: "folder", Relations: map[string]*openfgav1.Userset{"r2": this()},
			Metadata: &openfgav1.Metadata{Relations: map[string]*openfgav1.RelationMetadata{"r2": {DirectlyRelatedUserTypes: []*openfgav1.RelationReference{ref("user")}}}}},
		{Type: "doc", Relations: map[string]*openfgav1.Userset{"r1": this(), "parent": this(), "x": x},
			Metadata: &openfgav1.Metadata{Relations: map[string]*openfgav1.RelationMetadata{
				"r1":     {DirectlyRelatedUserTypes: []*openfgav1.RelationReference{ref("user")}},
				"parent": {DirectlyRelatedUserTypes: []*openfgav1.RelationReference{ref("folder")}},
				"x":      {DirectlyRelatedUserTypes: restr},
			}}},
	}}
	if withCondition {
		m.Conditions = map[string]*openfgav1.Condition{"c": {Name: "c", Expression: "p < 10 && q == \"a\"", Parameters: map[string]*openfgav1.ConditionParamTypeRef{
			"p": {TypeName: openfgav1.ConditionParamTypeRef_TYPE_NAME_INT},
			"q": {TypeName: openfgav1.ConditionParamTypeRef_TYPE_NAME_STRING},
			"l": {TypeName: openfgav1.ConditionParamTypeRef_TYPE_NAME_LIST, GenericTypes: []*openfgav1.ConditionParamTypeRef{{TypeName: openfgav1.ConditionParamTypeRef_TYPE_NAME_STRING}}},
		}},
			// every parameter type the lexer knows: scalar, list<T> and map<T> for each T
			"alltypes": {Name: "alltypes", Expression: "s_int < 10", Parameters: allParamTypes()},
			// a name that differs from "c" only in case: the documented order (by name) must still be a total one
			"C": {Name: "C", Expression: "p > 1", Parameters: map[string]*openfgav1.ConditionParamTypeRef{"p": {TypeName: openfgav1.ConditionParamTypeRef_TYPE_NAME_INT}}}}
	}
	return m
}

func allParamTypes() map[string]*openfgav1.ConditionParamTypeRef {
	scalars := map[string]openfgav1.ConditionParamTypeRef_TypeName{
		"bool": openfgav1.ConditionParamTypeRef_TYPE_NAME_BOOL, "string": openfgav1.ConditionParamTypeRef_TYPE_NAME_STRING,
		"int": openfgav1.ConditionParamTypeRef_TYPE_NAME_INT, "uint": openfgav1.ConditionParamTypeRef_TYPE_NAME_UINT,
		"double": openfgav1.ConditionParamTypeRef_TYPE_NAME_DOUBLE, "duration": openfgav1.ConditionParamTypeRef_TYPE_NAME_DURATION,
		"timestamp": openfgav1.ConditionParamTypeRef_TYPE_NAME_TIMESTAMP, "ipaddress": openfgav1.ConditionParamTypeRef_TYPE_NAME_IPADDRESS,
	}
	out := map[string]*openfgav1.ConditionParamTypeRef{}
	for name, tn := range scalars {
		out["s_"+name] = &openfgav1.ConditionParamTypeRef{TypeName: tn}
		out["l_"+name] = &openfgav1.ConditionParamTypeRef{TypeName: openfgav1.ConditionParamTypeRef_TYPE_NAME_LIST, GenericTypes: []*openfgav1.ConditionParamTypeRef{{TypeName: tn}}}
		out["m_"+name] = &openfgav1.ConditionParamTypeRef{TypeName: openfgav1.ConditionParamTypeRef_TYPE_NAME_MAP, GenericTypes: []*openfgav1.ConditionParamTypeRef{{TypeName: tn}}}
	}
	return out
}

// ---------- executable specification (from the statements of C01/C02) ----------

func isThis(u *openfgav1.Userset) bool { _, ok := u.GetUserset().(*openfgav1.Userset_This); return ok }

func children(u *openfgav1.Userset) ([]*openfgav1.Userset, string) {
	switch x := u.GetUserset().(type) {
	case *openfgav1.Userset_Union:
		return x.Union.GetChild(), "or"
	case *openfgav1.Userset_Intersection:
		return x.Intersection.GetChild(), "and"
	case *openfgav1.Userset_Difference:
		return []*openfgav1.Userset{x.Difference.GetBase(), x.Difference.GetSubtract()}, "but not"
	}
	return nil, ""
}

func countThis(u *openfgav1.Userset) int {
	if isThis(u) {
		return 1
	}
	cs, _ := children(u)
	n := 0
	for _, c := range cs {
		n += countThis(c)
	}
	return n
}

// onFirstSpine: the direct assignment can be placed first - first operand of its union/intersection (where it is
// hoisted), base of its exclusion, recursively from the root.
func onFirstSpine(u *openfgav1.Userset) bool {
	if isThis(u) {
		return true
	}
	cs, op := children(u)
	if len(cs) == 0 {
		return false
	}
	if op == "but not" {
		return onFirstSpine(cs[0])
	}
	for _, c := range cs {
		if isThis(c) {
			return true
		}
	}
	return onFirstSpine(cs[0])
}

func expressible(u *openfgav1.Userset) bool {
	n := countThis(u)
	return n == 0 || (n == 1 && onFirstSpine(u))
}

// normalise: what parsing the produced DSL must give back (statement of C02).
func normalise(u *openfgav1.Userset) *openfgav1.Userset {
	cs, op := children(u)
	switch op {
	case "":
		return u
	case "but not":
		return diff(normalise(cs[0]), normalise(cs[1]))
	}
	var ns []*openfgav1.Userset
	for _, c := range cs {
		ns = append(ns, normalise(c))
	}
	for i, c := range ns {
		if isThis(c) && i > 0 {
			h := append([]*openfgav1.Userset{c}, ns[:i]...)
			ns = append(h, ns[i+1:]...)
			break
		}
	}
	if len(ns) == 1 {
		return ns[0]
	}
	if op == "or" {
		return union(ns...)
	}
	return inter(ns...)
}

func restrString(rs []*openfgav1.RelationReference) string {
	var ps []string
	for _, r := range rs {
		s := r.GetType()
		if r.GetWildcard() != nil {
			s += ":*"
		}
		if r.GetRelation() != "" {
			s += "#" + r.GetRelation()
		}
		if r.GetCondition() != "" {
			s += " with " + r.GetCondition()
		}
		ps = append(ps, s)
	}
	return strings.Join(ps, ", ")
}

// modelDigest is a canonical text of the parts of a model the properties talk about (types in order, relations by
// name with normalised rewrite and restrictions, conditions with parameter types and trimmed expression).
func modelDigest(m *openfgav1.AuthorizationModel, norm bool) string {
	var sb strings.Builder
	fmt.Fprintf(&sb, "schema %s\n", m.GetSchemaVersion())
	for _, td := range m.GetTypeDefinitions() {
		fmt.Fprintf(&sb, "type %s\n", td.GetType())
		var names []string
		for n := range td.GetRelations() {
			names = append(names, n)
		}
		sort.Strings(names)
		for _, n := range names {
			u := td.GetRelations()[n]
			if norm {
				u = normalise(u)
			}
			restr := td.GetMetadata().GetRelations()[n].GetDirectlyRelatedUserTypes()
			rs := restrString(restr)
			if countThis(u) == 0 {
				rs = ""
			}
			fmt.Fprintf(&sb, "  %s = %s [%s]\n", n, treeString(u), rs)
		}
	}
	var cn []string
	for n := range m.GetConditions() {
		cn = append(cn, n)
	}
	sort.Strings(cn)
	for _, n := range cn {
		c := m.GetConditions()[n]
		var ps []string
		for pn, pt := range c.GetParameters() {
			s := pn + ":" + pt.GetTypeName().String()
			for _, g := range pt.GetGenericTypes() {
				s += "<" + g.GetTypeName().String() + ">"
			}
			ps = append(ps, s)
		}
		sort.Strings(ps)
		fmt.Fprintf(&sb, "condition %s(%s) {%s}\n", c.GetName(), strings.Join(ps, ","), strings.Join(strings.Fields(c.GetExpression()), " "))
	}
	return sb.String()
}
