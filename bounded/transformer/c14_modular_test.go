package transformer_test

// C14 bounded: modular models. The DSL must not depend on the order of the type definitions, on JSON key order, or on
// repetition; types, relations and conditions appear in the documented order (unattributed first, then by module,
// file, name); source-information comments are inert.

import (
	"encoding/json"
	"fmt"
	"sort"
	"strings"
	"testing"

	openfgav1 "github.com/openfga/api/proto/openfga/v1"
	"google.golang.org/protobuf/encoding/protojson"
	"google.golang.org/protobuf/proto"

	"github.com/openfga/language/pkg/go/transformer"
)

func relMeta(module, file string) *openfgav1.RelationMetadata {
	rm := &openfgav1.RelationMetadata{DirectlyRelatedUserTypes: []*openfgav1.RelationReference{ref("user")}}
	if module != "" {
		rm.Module = module
		rm.SourceInfo = &openfgav1.SourceInfo{File: file}
	}
	return rm
}

func modularTypes() []*openfgav1.TypeDefinition {
	mk := func(name, module, file string, rels map[string][2]string) *openfgav1.TypeDefinition {
		td := &openfgav1.TypeDefinition{Type: name}
		if module != "" || len(rels) > 0 {
			td.Metadata = &openfgav1.Metadata{Module: module}
			if module != "" {
				td.Metadata.SourceInfo = &openfgav1.SourceInfo{File: file}
			}
		}
		if len(rels) > 0 {
			td.Relations = map[string]*openfgav1.Userset{}
			td.Metadata.Relations = map[string]*openfgav1.RelationMetadata{}
			for r, mf := range rels {
				td.Relations[r] = this()
				td.Metadata.Relations[r] = relMeta(mf[0], mf[1])
			}
		}
		return td
	}
	return []*openfgav1.TypeDefinition{
		mk("user", "", "", nil),
		// a type WITHOUT module inside a modular model whose relations were contributed by modules (extensions)
		mk("zebra", "", "", map[string][2]string{"own": {"", ""}, "zed": {"", ""}, "admin": {"audit", "a.fga"}, "banned": {"abuse", "b.fga"}}),
		mk("doc", "core", "core.fga", map[string][2]string{"owner": {"", ""}, "zulu": {"", ""}, "alpha": {"wiki", "wiki.fga"}, "beta": {"audit", "z.fga"}, "gamma": {"audit", "a.fga"}}),
		mk("org", "core", "a-first.fga", map[string][2]string{"member": {"", ""}}),
		mk("app", "apps", "apps.fga", nil),
	}
}

// reverseKeyJSON re-encodes a JSON document with the keys of every object in reverse order.
func reverseKeyJSON(in []byte) []byte {
	var v any
	if err := json.Unmarshal(in, &v); err != nil {
		return in
	}
	var enc func(v any) string
	enc = func(v any) string {
		switch x := v.(type) {
		case map[string]any:
			var ks []string
			for k := range x {
				ks = append(ks, k)
			}
			sort.Sort(sort.Reverse(sort.StringSlice(ks)))
			var ps []string
			for _, k := range ks {
				kb, _ := json.Marshal(k)
				ps = append(ps, string(kb)+":"+enc(x[k]))
			}
			return "{" + strings.Join(ps, ",") + "}"
		case []any:
			var ps []string
			for _, e := range x {
				ps = append(ps, enc(e))
			}
			return "[" + strings.Join(ps, ",") + "]"
		}
		b, _ := json.Marshal(v)
		return string(b)
	}
	return []byte(enc(v))
}

func TestBoundedC14Modular(t *testing.T) {
	r := &boundedReport{Property: "C14", Check: "C14-modular-order", Function: "TransformJSONProtoToDSL / TransformJSONStringToDSL",
		Scope: "a modular model with 5 type definitions (two unattributed, three in two modules and three files), relations attributed to three modules/files, two conditions; every permutation of the type definitions (120), both values of the source-information option, forward and reversed JSON key order, 3 repetitions", Exhaustive: true}
	base := modularTypes()
	conds := map[string]*openfgav1.Condition{
		"zc": {Name: "zc", Expression: "x < 1", Parameters: map[string]*openfgav1.ConditionParamTypeRef{"x": {TypeName: openfgav1.ConditionParamTypeRef_TYPE_NAME_INT}}},
		"ac": {Name: "ac", Expression: "y < 1", Parameters: map[string]*openfgav1.ConditionParamTypeRef{"y": {TypeName: openfgav1.ConditionParamTypeRef_TYPE_NAME_INT}, "b": {TypeName: openfgav1.ConditionParamTypeRef_TYPE_NAME_BOOL}},
			Metadata: &openfgav1.ConditionMetadata{Module: "core", SourceInfo: &openfgav1.SourceInfo{File: "core.fga"}}},
	}
	idx := []int{0, 1, 2, 3, 4}
	var first [2]string
	for _, perm := range permsInt(idx) {
		m := &openfgav1.AuthorizationModel{SchemaVersion: "1.2", Conditions: conds}
		var names []string
		for _, i := range perm {
			m.TypeDefinitions = append(m.TypeDefinitions, proto.Clone(base[i]).(*openfgav1.TypeDefinition))
			names = append(names, base[i].GetType())
		}
		id := "type order " + strings.Join(names, ",")
		r.Distinct++
		for oi, withSrc := range []bool{false, true} {
			before := proto.Clone(m)
			var outs []string
			for k := 0; k < 3; k++ {
				r.Cases++
				dsl, err := transformer.TransformJSONProtoToDSL(m, transformer.WithIncludeSourceInformation(withSrc))
				if err != nil {
					r.violation("error", id, "%v", err)
					break
				}
				outs = append(outs, dsl)
			}
			if !proto.Equal(before, m) {
				r.violation("input-modified", id, "printing modified the model (type order now %v)", func() []string {
					var ns []string
					for _, td := range m.GetTypeDefinitions() {
						ns = append(ns, td.GetType())
					}
					return ns
				}())
				m = before.(*openfgav1.AuthorizationModel)
			}
			if len(outs) < 3 {
				continue
			}
			if outs[0] != outs[1] || outs[1] != outs[2] {
				r.violation("not-repeatable", id, "repeated calls on the same model give different DSL")
			}
			if first[oi] == "" {
				first[oi] = outs[0]
				if oi == 0 {
					checkDocumentedOrder(r, outs[0])
					r.sample(outs[0])
				}
			} else if outs[0] != first[oi] {
				r.violation("depends-on-type-order", id, "DSL differs from the DSL of another order of the same type definitions (source info %v)", withSrc)
			}
			for _, rev := range []bool{false, true} {
				js, err := protojson.Marshal(m)
				if err != nil {
					continue
				}
				if rev {
					js = reverseKeyJSON(js)
				}
				r.Cases++
				viaJSON, err := transformer.TransformJSONStringToDSL(string(js), transformer.WithIncludeSourceInformation(withSrc))
				if err != nil || *viaJSON != outs[0] {
					r.violation("depends-on-json-encoding", id, "DSL through the JSON string API (reversed keys=%v) differs (err=%v)", rev, err)
				}
			}
		}
		if first[0] != "" && first[1] != "" && stripComments(first[1]) != stripComments(first[0]) {
			r.violation("comments-not-inert", id, "stripping the comments of the source-information output does not give the plain output")
		}
	}
	r.emit(t)
}

// checkDocumentedOrder: unattributed first, then by module, file, name - for types, relations of doc, conditions.
func checkDocumentedOrder(r *boundedReport, dsl string) {
	var types, docRels, zebraRels, conds []string
	cur := ""
	for _, l := range strings.Split(dsl, "\n") {
		t := strings.TrimSpace(l)
		switch {
		case strings.HasPrefix(t, "type "):
			cur = strings.TrimPrefix(t, "type ")
			types = append(types, cur)
		case strings.HasPrefix(t, "define ") && cur == "doc":
			docRels = append(docRels, strings.SplitN(strings.TrimPrefix(t, "define "), ":", 2)[0])
		case strings.HasPrefix(t, "define ") && cur == "zebra":
			zebraRels = append(zebraRels, strings.SplitN(strings.TrimPrefix(t, "define "), ":", 2)[0])
		case strings.HasPrefix(t, "condition "):
			conds = append(conds, strings.SplitN(strings.TrimPrefix(t, "condition "), "(", 2)[0])
		}
	}
	if got, want := strings.Join(types, ","), "user,zebra,app,org,doc"; got != want {
		r.violation("documented-order/types", "types", "types appear as %s, documented order (unattributed first, then module, file, name) is %s", got, want)
	}
	if got, want := strings.Join(docRels, ","), "owner,zulu,gamma,beta,alpha"; got != want {
		r.violation("documented-order/relations", "doc", "relations of doc appear as %s, documented order is %s", got, want)
	}
	if got, want := strings.Join(zebraRels, ","), "own,zed,banned,admin"; got != want {
		r.violation("documented-order/relations", "zebra", "relations of the unattributed type zebra appear as %s, documented order is %s", got, want)
	}
	if got, want := strings.Join(conds, ","), "zc,ac"; got != want {
		r.violation("documented-order/conditions", "conditions", "conditions appear as %s, documented order is %s", got, want)
	}
	_ = fmt.Sprint
}
