package transformer_test

// B2: texts. An independent renderer (written from OpenFGAParser.g4 / OpenFGALexer.g4, not from the printer) writes
// B1 models in every layout of a finite catalogue; ParseDSL-based entry points are the stand-in functions.
//   TestBoundedB2Layouts     C03: every layout parses to exactly the model written; layout never changes the result
//   TestBoundedB2Injections  C09: every single injected rule violation, at every site, is rejected (error, no model)
//   TestBoundedB2Edits       C08/C16: single-token edits and truncations never panic; every syntax error position
//                            lies inside the input

import (
	"sort"
	"fmt"
	"regexp"
	"strings"
	"testing"

	openfgav1 "github.com/openfga/api/proto/openfga/v1"

	"github.com/openfga/language/pkg/go/transformer"
)

type layout struct {
	tab, crlf, blank, comments, trailing, wideBrackets, tightCommas, spaceColon, multiLineRestr, parens, noFinalNewline, leadingBlank, mixedEnds bool
}

func (l layout) String() string {
	var on []string
	for _, p := range []struct {
		n string
		b bool
	}{{"tab", l.tab}, {"crlf", l.crlf}, {"blank", l.blank}, {"comments", l.comments}, {"trailing", l.trailing}, {"wideBrackets", l.wideBrackets},
		{"tightCommas", l.tightCommas}, {"spaceColon", l.spaceColon}, {"multiLineRestr", l.multiLineRestr}, {"parens", l.parens}, {"noFinalNewline", l.noFinalNewline}, {"leadingBlank", l.leadingBlank}, {"mixedEnds", l.mixedEnds}} {
		if p.b {
			on = append(on, p.n)
		}
	}
	if len(on) == 0 {
		return "plain"
	}
	return strings.Join(on, "+")
}

func layouts() []layout {
	setters := []func(*layout){
		func(l *layout) { l.tab = true }, func(l *layout) { l.crlf = true }, func(l *layout) { l.blank = true },
		func(l *layout) { l.comments = true }, func(l *layout) { l.trailing = true }, func(l *layout) { l.wideBrackets = true },
		func(l *layout) { l.tightCommas = true }, func(l *layout) { l.spaceColon = true }, func(l *layout) { l.multiLineRestr = true },
		func(l *layout) { l.parens = true }, func(l *layout) { l.noFinalNewline = true }, func(l *layout) { l.leadingBlank = true },
		func(l *layout) { l.mixedEnds = true },
	}
	out := []layout{{}}
	for i := range setters {
		var l layout
		setters[i](&l)
		out = append(out, l)
		for j := i + 1; j < len(setters); j++ {
			l2 := l
			setters[j](&l2)
			out = append(out, l2)
		}
	}
	return out
}

type writer struct {
	l     layout
	lines []string
	n     int
}

func (w *writer) code(depth int, text string) {
	ind := strings.Repeat("  ", depth)
	if w.l.tab {
		ind = strings.Repeat("\t", depth)
	}
	if w.l.comments && w.n%2 == 0 {
		w.lines = append(w.lines, strings.Repeat(" ", depth*2)+"# a full-line comment, with [brackets] and 'define x: y'")
	}
	if w.l.blank && w.n%3 == 1 {
		w.lines = append(w.lines, "")
	}
	if w.l.trailing && !strings.Contains(text, "\n") {
		text += " # trailing comment"
	}
	w.lines = append(w.lines, ind+text)
	w.n++
}

func renderRestr(rs []*openfgav1.RelationReference, l layout, indent string) string {
	var ps []string
	for _, r := range rs {
		ps = append(ps, restrString([]*openfgav1.RelationReference{r}))
	}
	sep := ", "
	if l.tightCommas {
		sep = ","
	}
	open, close := "[", "]"
	if l.wideBrackets {
		open, close = "[ ", " ]"
		sep = " , "
		if l.tightCommas {
			sep = " ,"
		}
	}
	if l.multiLineRestr && len(ps) > 1 {
		return "[\n" + indent + "      " + strings.Join(ps, ",\n"+indent+"      ") + "\n" + indent + "    ]"
	}
	return open + strings.Join(ps, sep) + close
}

// renderRewrite writes a (normalised, expressible) rewrite: direct assignment first, nested operators parenthesised.
func renderRewrite(u *openfgav1.Userset, restr []*openfgav1.RelationReference, l layout, top bool, indent string) string {
	cs, op := children(u)
	if op == "" {
		var s string
		switch x := u.GetUserset().(type) {
		case *openfgav1.Userset_This:
			return renderRestr(restr, l, indent)
		case *openfgav1.Userset_ComputedUserset:
			s = x.ComputedUserset.GetRelation()
		case *openfgav1.Userset_TupleToUserset:
			s = x.TupleToUserset.GetComputedUserset().GetRelation() + " from " + x.TupleToUserset.GetTupleset().GetRelation()
		}
		if l.parens && !top {
			return "( " + s + " )"
		}
		return s
	}
	var ps []string
	for _, c := range cs {
		ps = append(ps, renderRewrite(c, restr, l, false, indent))
	}
	s := strings.Join(ps, " "+op+" ")
	if !top {
		return "(" + s + ")"
	}
	return s
}

func renderModel(m *openfgav1.AuthorizationModel, l layout) string {
	w := &writer{l: l}
	if l.leadingBlank {
		w.lines = append(w.lines, "")
	}
	w.code(0, "model")
	w.code(1, "schema "+m.GetSchemaVersion())
	for _, td := range m.GetTypeDefinitions() {
		w.code(0, "type "+td.GetType())
		if len(td.GetRelations()) == 0 {
			continue
		}
		w.code(1, "relations")
		var names []string
		for n := range td.GetRelations() {
			names = append(names, n)
		}
		// any order is allowed by the grammar: reverse-sorted, so that it differs from the printer
		for i := 0; i < len(names); i++ {
			for j := i + 1; j < len(names); j++ {
				if names[j] > names[i] {
					names[i], names[j] = names[j], names[i]
				}
			}
		}
		for _, n := range names {
			colon := ": "
			if l.spaceColon {
				colon = " :"
			}
			ind := "  "
			if l.tab {
				ind = "\t"
			}
			w.code(2, "define "+n+colon+renderRewrite(td.GetRelations()[n], td.GetMetadata().GetRelations()[n].GetDirectlyRelatedUserTypes(), l, true, strings.Repeat(ind, 0)))
		}
	}
	var condNames []string
	for cn := range m.GetConditions() {
		condNames = append(condNames, cn)
	}
	sort.Strings(condNames)
	for _, cn := range condNames {
		c := m.GetConditions()[cn]
		var ps []string
		var paramNames []string
		for pn := range c.GetParameters() {
			paramNames = append(paramNames, pn)
		}
		sort.Strings(paramNames)
		for _, pn := range paramNames {
			pt := c.GetParameters()[pn]
			ts := strings.ToLower(strings.TrimPrefix(pt.GetTypeName().String(), "TYPE_NAME_"))
			if len(pt.GetGenericTypes()) > 0 {
				ts += "<" + strings.ToLower(strings.TrimPrefix(pt.GetGenericTypes()[0].GetTypeName().String(), "TYPE_NAME_")) + ">"
			}
			sep := ": "
			if l.spaceColon {
				sep = " :"
			}
			ps = append(ps, pn+sep+ts)
		}
		sep := ", "
		if l.tightCommas {
			sep = ","
		}
		w.lines = append(w.lines, "")
		w.lines = append(w.lines, "condition "+c.GetName()+"("+strings.Join(ps, sep)+") {")
		w.lines = append(w.lines, "  "+c.GetExpression())
		w.lines = append(w.lines, "}")
	}
	nl := "\n"
	if l.crlf {
		nl = "\r\n"
	}
	if l.mixedEnds {
		// CRLF and LF line ends in one document: CRLF after the 1st, 4th, 7th ... line, LF after the others
		var sb strings.Builder
		for i, ln := range w.lines {
			sb.WriteString(ln)
			if i == len(w.lines)-1 && l.noFinalNewline {
				break
			}
			if i%3 == 0 {
				sb.WriteString("\r\n")
			} else {
				sb.WriteString("\n")
			}
		}
		return sb.String()
	}
	text := strings.Join(w.lines, nl)
	if !l.noFinalNewline {
		text += nl
	}
	return text
}

func b2Models(depth, width int) []*openfgav1.AuthorizationModel {
	var out []*openfgav1.AuthorizationModel
	for _, sh := range genShapes(depth, width, 3) {
		x := sh.build(stdLeaves())
		if !expressible(x) {
			continue
		}
		x = normalise(x)
		restr := []*openfgav1.RelationReference{ref("user"), refWild("user"), refRel("group", "member"), refCond("user", "c")}
		out = append(out, modelWith(x, restr, true))
	}
	// identifiers: keywords usable as names, dotted / slashed / dashed names
	special := modelWith(union(this(), computed("relation"), ttu("model", "module")), []*openfgav1.RelationReference{ref("type"), refRel("a.b/c-d", "schema")}, false)
	special.TypeDefinitions = append(special.TypeDefinitions,
		&openfgav1.TypeDefinition{Type: "type", Relations: map[string]*openfgav1.Userset{"relation": this(), "extend": computed("relation")},
			Metadata: &openfgav1.Metadata{Relations: map[string]*openfgav1.RelationMetadata{"relation": {DirectlyRelatedUserTypes: []*openfgav1.RelationReference{ref("type")}}, "extend": {}}}},
		&openfgav1.TypeDefinition{Type: "a.b/c-d", Relations: map[string]*openfgav1.Userset{"schema": this(), "x-y.z/w": computed("schema")},
			Metadata: &openfgav1.Metadata{Relations: map[string]*openfgav1.RelationMetadata{"schema": {DirectlyRelatedUserTypes: []*openfgav1.RelationReference{ref("type")}}, "x-y.z/w": {}}}})
	for _, td := range special.TypeDefinitions {
		if td.GetType() == "doc" {
			td.Relations["relation"] = this()
			td.Relations["model"] = this()
			td.Relations["module"] = this()
			td.Metadata.Relations["relation"] = &openfgav1.RelationMetadata{DirectlyRelatedUserTypes: []*openfgav1.RelationReference{ref("user")}}
			td.Metadata.Relations["model"] = &openfgav1.RelationMetadata{DirectlyRelatedUserTypes: []*openfgav1.RelationReference{ref("user")}}
			td.Metadata.Relations["module"] = &openfgav1.RelationMetadata{DirectlyRelatedUserTypes: []*openfgav1.RelationReference{ref("type")}}
		}
	}
	out = append(out, special)
	return out
}

func TestBoundedB2Layouts(t *testing.T) {
	depth, width := 1, 3
	if thorough() {
		depth, width = 2, 2
	}
	r := &boundedReport{Property: "C03", Check: "B2-layouts", Function: "ParseDSL / TransformDSLToProto",
		Scope: fmt.Sprintf("B2: expressible B1 models (operator depth <= %d, root arity <= %d) plus a model with keyword-named and dotted/slashed/dashed identifiers, rendered by an independent grammar-driven renderer in every layout of the catalogue taken one and two at a time (tabs, CRLF, blank lines, full-line comments, trailing comments, spaces inside brackets, tight commas, space before colon, restrictions over several lines, redundant parentheses, no final newline, leading blank line, CRLF and LF line ends mixed in one document)", depth, width), Exhaustive: true}
	models := b2Models(depth, width)
	for mi, m := range models {
		want := modelDigest(m, true)
		r.Distinct++
		for _, l := range layouts() {
			r.Cases++
			text := renderModel(m, l)
			id := fmt.Sprintf("model %d (%s) layout %s", mi, treeString(m.GetTypeDefinitions()[3].GetRelations()["x"]), l)
			got, err := transformer.TransformDSLToProto(text)
			if err != nil {
				r.violation("layout-rejected/"+l.String(), id, "grammatical layout rejected: %s\n%s", firstLine(err.Error()), text)
				continue
			}
			if d := modelDigest(got, false); d != want {
				r.violation("layout-changes-model/"+l.String(), id, "parsed model differs from the model written:\n got %s\nwant %s", d, want)
			}
		}
		if mi == 0 {
			r.sample(renderModel(m, layout{tab: true, comments: true}))
		}
	}
	r.emit(t)
}

// ---------- C09: injections ----------

type injection struct {
	name  string
	apply func(text string, site int) (string, bool) // site = index of the relation line to damage; false: no such site
}

var headerRE = regexp.MustCompile(`(?m)^model[^\n]*\n\s*schema [0-9.]+[^\n]*\n`)

var defineLine = regexp.MustCompile(`(?m)^(\s*define [^:\n]+:\s*)(.*)$`)

func onDefine(f func(head, body string) (string, bool)) func(string, int) (string, bool) {
	return func(text string, site int) (string, bool) {
		locs := defineLine.FindAllStringSubmatchIndex(text, -1)
		if site >= len(locs) {
			return "", false
		}
		loc := locs[site]
		head, body := text[loc[2]:loc[3]], text[loc[4]:loc[5]]
		nb, ok := f(head, body)
		if !ok {
			return "", false
		}
		return text[:loc[0]] + nb + text[loc[1]:], true
	}
}

func injections() []injection {
	return []injection{
		{"mixed-operators", onDefine(func(h, b string) (string, bool) { return h + "(" + b + ") or r1 and r1", true })},
		{"mixed-operators-nested", onDefine(func(h, b string) (string, bool) { return h + "r1 or (r1 and r1 but not r1)", true })},
		{"direct-not-first", onDefine(func(h, b string) (string, bool) { return h + "r1 or [user]", true })},
		{"direct-not-first-nested", onDefine(func(h, b string) (string, bool) { return h + "r1 and (r1 or [user])", true })},
		{"empty-restriction-list", onDefine(func(h, b string) (string, bool) { return h + "[]", true })},
		{"wildcard-with-relation", onDefine(func(h, b string) (string, bool) { return h + "[user:*#member]", true })},
		{"relation-defined-twice", onDefine(func(h, b string) (string, bool) { return h + b + "\n" + h + "r1", true })},
		{"extend-in-model", func(text string, site int) (string, bool) {
			if site > 0 || !strings.Contains(text, "\ntype doc") {
				return "", false
			}
			return strings.Replace(text, "\ntype doc", "\nextend type doc", 1), true
		}},
		{"both-headers", func(text string, site int) (string, bool) {
			if site > 0 {
				return "", false
			}
			return "module m\n" + text, true
		}},
		{"no-header", func(text string, site int) (string, bool) {
			if site > 0 {
				return "", false
			}
			loc := headerRE.FindStringIndex(text)
			if loc == nil {
				return "", false
			}
			return text[:loc[0]] + text[loc[1]:], true
		}},
		{"condition-twice", func(text string, site int) (string, bool) {
			i := strings.Index(text, "\ncondition ")
			if site > 0 || i < 0 {
				return "", false
			}
			return text + text[i:], true
		}},
		{"parameter-twice", func(text string, site int) (string, bool) {
			if site > 0 || !strings.Contains(text, "(l: list<string>, ") {
				return "", false
			}
			return strings.Replace(text, "(l: list<string>, ", "(l: list<string>, l: int, ", 1), true
		}},
		{"container-without-element", func(text string, site int) (string, bool) {
			if site > 0 || !strings.Contains(text, "list<string>") {
				return "", false
			}
			return strings.Replace(text, "list<string>", "list", 1), true
		}},
		{"container-nested-element", func(text string, site int) (string, bool) {
			if site > 0 || !strings.Contains(text, "list<string>") {
				return "", false
			}
			return strings.Replace(text, "list<string>", "list<list<string>>", 1), true
		}},
	}
}

func TestBoundedB2Injections(t *testing.T) {
	r := &boundedReport{Property: "C09", Check: "B2-injections", Function: "TransformDSLToProto / TransformModularDSLToProto",
		Scope: "B2: expressible B1 models (operator depth <= 1, root arity <= 3) printed by the real printer and by the independent renderer (two layouts) x a catalogue of 14 rule violations x every relation line of the document as injection site; plus the module-only rule (same type extended twice)", Exhaustive: true}
	models := b2Models(1, 3)
	for mi, m := range models {
		r.Distinct++
		texts := []string{renderModel(m, layout{}), renderModel(m, layout{tab: true, crlf: true, wideBrackets: true})}
		if dsl, err := transformer.TransformJSONProtoToDSL(m); err == nil {
			texts = append(texts, dsl)
		}
		for ti, text := range texts {
			if _, err := transformer.TransformDSLToProto(text); err != nil {
				continue // only valid documents are damaged (layout acceptance is C03's business)
			}
			for _, inj := range injections() {
				for site := 0; site < 12; site++ {
					bad, ok := inj.apply(text, site)
					if !ok {
						break
					}
					r.Cases++
					id := fmt.Sprintf("model %d text %d %s@%d", mi, ti, inj.name, site)
					got, err := transformer.TransformDSLToProto(bad)
					if err == nil || got != nil {
						r.violation("accepted/"+inj.name, id, "document breaking the rule is accepted (err=%v, model=%v):\n%s", err, got != nil, bad)
					}
				}
			}
		}
	}
	// module-only rule
	mod := "module m\nextend type doc\n  relations\n    define a: [user]\nextend type doc\n  relations\n    define b: [user]\n"
	r.Cases++
	if got, _, err := transformer.TransformModularDSLToProto(mod); err == nil || got != nil {
		r.violation("accepted/type-extended-twice", "module", "same type extended twice in one file is accepted")
	}
	modDup := "module m\ntype user\n\ncondition c(x: int) {\n  x < 1\n}\n\ncondition c(x: int) {\n  x < 2\n}\n"
	r.Cases++
	if got, _, err := transformer.TransformModularDSLToProto(modDup); err == nil || got != nil {
		r.violation("accepted/condition-twice-in-module", "module", "a module defining the same condition twice is accepted")
	}
	r.emit(t)
}

// ---------- C08 / C16: edits ----------

var tokenRE = regexp.MustCompile(`[A-Za-z0-9_./-]+|\r?\n|[ \t]+|.`)
var syntaxErrRE = regexp.MustCompile(`syntax error at line=(-?\d+), column=(-?\d+):`)

func TestBoundedB2Edits(t *testing.T) {
	c08 := &boundedReport{Property: "C08", Check: "B2-single-edits", Function: "TransformDSLToProto / TransformModularDSLToProto / TransformJSONStringToDSL / TransformModFile",
		Scope: "B2: canonical and laid-out renderings of B1 models (depth <= 1), module files of the B5 pool, their JSON forms and three fga.mod manifests; every deletion, duplication and replacement of a single token and every truncation at a token boundary", Exhaustive: true}
	c16 := &boundedReport{Property: "C16", Check: "B2-single-edits", Function: "TransformDSLToProto (syntax error positions)", Scope: c08.Scope, Exhaustive: true}
	var texts []string
	models := b2Models(1, 2)
	for i, m := range models {
		if i%3 != 0 {
			continue
		}
		texts = append(texts, renderModel(m, layout{}), renderModel(m, layout{comments: true, blank: true, crlf: true}))
	}
	for _, f := range modulePool {
		texts = append(texts, f.Contents)
	}
	replacements := []string{"#", "(", ")", "[", "]", ":", ",", "or", "and", "but not", "from", "with", "type", "extend", "module", "{", "}", "\n", "*", ""}
	try := func(id, text string) {
		c08.Cases++
		c16.Cases++
		func() {
			defer func() {
				if x := recover(); x != nil {
					c08.violation("panic/TransformDSLToProto", id, "panic %v on %q", x, text)
				}
			}()
			_, err := transformer.TransformDSLToProto(text)
			if err != nil {
				lines := strings.Split(text, "\n")
				for _, m := range syntaxErrRE.FindAllStringSubmatch(err.Error(), -1) {
					var ln, col int
					fmt.Sscanf(m[1], "%d", &ln)
					fmt.Sscanf(m[2], "%d", &col)
					if ln < 0 || ln >= len(lines) {
						c16.violation("line-outside-input", id, "syntax error at line %d of a %d-line input %q", ln, len(lines), text)
					} else if col < 0 || col > len(lines[ln]) {
						c16.violation("column-outside-line", id, "syntax error at line %d column %d, the line has %d characters: %q", ln, col, len(lines[ln]), lines[ln])
					}
				}
			}
		}()
		func() {
			defer func() {
				if x := recover(); x != nil {
					c08.violation("panic/TransformModularDSLToProto", id, "panic %v on %q", x, text)
				}
			}()
			_, _, _ = transformer.TransformModularDSLToProto(text)
		}()
	}
	for ti, text := range texts {
		c08.Distinct++
		c16.Distinct++
		toks := tokenRE.FindAllStringIndex(text, -1)
		for k, tk := range toks {
			id := fmt.Sprintf("text %d token %d", ti, k)
			try(id+" delete", text[:tk[0]]+text[tk[1]:])
			try(id+" duplicate", text[:tk[1]]+text[tk[0]:])
			try(id+" truncate", text[:tk[0]])
			if k%4 == 0 || thorough() {
				for _, rp := range replacements {
					try(id+" replace "+rp, text[:tk[0]]+rp+text[tk[1]:])
				}
			}
		}
	}
	// JSON and fga.mod inputs: byte-level single edits
	var jsons []string
	for i, m := range models {
		if i%7 == 0 {
			if js, err := transformer.TransformDSLToJSON(renderModel(m, layout{})); err == nil {
				jsons = append(jsons, js)
			}
		}
	}
	jsons = append(jsons, `{"schema_version":"1.1","type_definitions":[{"type":"doc","relations":{"x":{"union":{"child":[]}}, "y":{"difference":{"base":{"intersection":{"child":[]}},"subtract":{"this":{}}}}, "z":{"tupleToUserset":{}}},"metadata":{"relations":{"x":{}}}}],"conditions":{"c":{"name":"c","expression":"x","parameters":{"x":{"type_name":"TYPE_NAME_LIST"}}}}}`)
	for ji, js := range jsons {
		c08.Distinct++
		for k := 0; k <= len(js); k += 1 {
			for _, ed := range []string{js[:k], js[:k] + "}" + js[k:], js[:k] + "null" + js[min(k+1, len(js)):]} {
				c08.Cases++
				func() {
					defer func() {
						if x := recover(); x != nil {
							c08.violation("panic/TransformJSONStringToDSL", fmt.Sprintf("json %d edit at %d", ji, k), "panic %v on %q", x, ed)
						}
					}()
					_, _ = transformer.TransformJSONStringToDSL(ed)
				}()
			}
		}
	}
	mods := []string{"schema: '1.2'\ncontents:\n  - core.fga\n  - a/b.fga\n", "schema: 1.2\ncontents: [a.fga, '%2e%2e/b.fga', ~, {x: y}]\n", "&a schema: '1.2'\ncontents:\n  - *a\n  - !!str x.fga\n"}
	for mi, md := range mods {
		c08.Distinct++
		for k := 0; k <= len(md); k++ {
			for _, ed := range []string{md[:k], md[:k] + ":" + md[k:], md[:k] + "-" + md[min(k+1, len(md)):], md[:k] + "\t" + md[k:]} {
				c08.Cases++
				func() {
					defer func() {
						if x := recover(); x != nil {
							c08.violation("panic/TransformModFile", fmt.Sprintf("mod %d edit at %d", mi, k), "panic %v on %q", x, ed)
						}
					}()
					_, _ = transformer.TransformModFile(ed)
				}()
			}
		}
	}
	c08.emit(t)
	c16.emit(t)
}
