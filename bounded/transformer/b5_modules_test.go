package transformer_test

// B5: module merging on every subset (<= 3 files, thorough: <= 4) of a pool of small module files, in every order,
// repeated (map iteration inside the merger cannot be driven, only sampled). Bounded stand-in for
// TransformModuleFilesToModel as a whole (properties C07, C12, C16, C13). The oracle is written from the statements.

import (
	"fmt"
	"sort"
	"strings"
	"testing"

	openfgav1 "github.com/openfga/api/proto/openfga/v1"

	"github.com/openfga/language/pkg/go/transformer"
	"github.com/openfga/language/pkg/go/utils"
)

var modulePool = []transformer.ModuleFile{
	{Name: "core.fga", Contents: "module core\ntype user\ntype org\n  relations\n    define member: [user]\ntype doc\n  relations\n    define owner: [user]\n"},
	{Name: "view.fga", Contents: "module view\nextend type doc\n  relations\n    define viewer: [user]\n"},
	{Name: "edit.fga", Contents: "module edit\nextend type doc\n  relations\n    define editor: [user] or owner\n    define viewer2: [user]\n"},
	{Name: "view-again.fga", Contents: "module viewagain\nextend type doc\n  relations\n    define viewer: [user, org#member]\n"},
	{Name: "org-owner.fga", Contents: "module orgowner\nextend type org\n  relations\n    define owner: [user]\n"},
	{Name: "two-extends.fga", Contents: "module two\nextend type org\n  relations\n    define staff: [user]\nextend type doc\n  relations\n    define member: [user]\n"},
	{Name: "unknown.fga", Contents: "module unknown\nextend type nothing\n  relations\n    define x: [user]\n"},
	{Name: "doc-again.fga", Contents: "module docagain\ntype doc2\ntype doc\n"},
	{Name: "cond.fga", Contents: "module cond\ntype team\n  relations\n    define member: [user with c]\n\ncondition c(x: int) {\n  x < 1\n}\n"},
	{Name: "cond-again.fga", Contents: "module condagain\ncondition c2(y: int) {\n  y < 2\n}\n\ncondition c(y: int) {\n  y < 2\n}\n"},
	{Name: "same-name-two-types.fga", Contents: "module samename\nextend type org\n  relations\n    define viewer: [user]\nextend type doc\n  relations\n    define viewer: [user]\n"},
	{Name: "short-name.fga", Contents: "module shortname\nextend type doc\n  relations\n    define e: [user]\n"},
	{Name: "short-name-again.fga", Contents: "module shortnameagain\nextend type doc\n  relations\n    define e: [user]\n"},
	// relation names that differ only in case, all of them re-declared by one extension (the order of the four conflict errors must not
	// depend on map iteration)
	{Name: "casing.fga", Contents: "module casing\ntype casedoc\n  relations\n    define Viewer: [user]\n    define viewer: [user]\n    define Editor: [user]\n    define editor: [user]\n"},
	{Name: "casing-again.fga", Contents: "module casingagain\nextend type casedoc\n  relations\n    define viewer: [user]\n    define Viewer: [user]\n    define editor: [user]\n    define Editor: [user]\n"},
	{Name: "plain-model.fga", Contents: "model\n  schema 1.1\ntype standalone\n"},
	{Name: "broken.fga", Contents: "module broken\ntype\n"},
}

type conflict struct {
	kind string // duplicate-type, duplicate-condition, unknown-extension, duplicate-relation, not-a-module, syntax
	file string
	name string
	line int // zero-based line of the conflicting declaration itself in `file` (-1: not checked)
}

func lineOf(contents string, pred func(trimmed string, typeCtx string) bool) int {
	typeCtx := ""
	for i, l := range strings.Split(contents, "\n") {
		t := strings.TrimSpace(l)
		if strings.HasPrefix(t, "type ") {
			typeCtx = strings.TrimSpace(strings.TrimPrefix(t, "type "))
		}
		if strings.HasPrefix(t, "extend type ") {
			typeCtx = strings.TrimSpace(strings.TrimPrefix(t, "extend type "))
		}
		if pred(t, typeCtx) {
			return i
		}
	}
	return -1
}

// specConflicts: the conflicts of a file list by the statement of C07 (order-free: a set).
func specConflicts(files []transformer.ModuleFile) []conflict {
	var out []conflict
	type parsed struct {
		f    transformer.ModuleFile
		m    *openfgav1.AuthorizationModel
		exts map[string]*openfgav1.TypeDefinition
	}
	var ps []parsed
	for _, f := range files {
		m, exts, err := transformer.TransformModularDSLToProto(f.Contents)
		if err != nil {
			out = append(out, conflict{"syntax", f.Name, "", -1})
			continue
		}
		if !strings.HasPrefix(strings.TrimSpace(f.Contents), "module") {
			out = append(out, conflict{"not-a-module", f.Name, "", -1})
			continue
		}
		ps = append(ps, parsed{f, m, exts})
	}
	baseTypes := map[string]string{} // type -> declaring file
	baseRels := map[string]map[string]bool{}
	for _, p := range ps {
		for _, td := range p.m.GetTypeDefinitions() {
			if _, isExt := p.exts[td.GetType()]; isExt {
				continue
			}
			if _, dup := baseTypes[td.GetType()]; dup {
				name := td.GetType()
				out = append(out, conflict{"duplicate-type", p.f.Name, name, lineOf(p.f.Contents, func(t, _ string) bool { return t == "type "+name })})
				continue
			}
			baseTypes[td.GetType()] = p.f.Name
			baseRels[td.GetType()] = map[string]bool{}
			for r := range td.GetRelations() {
				baseRels[td.GetType()][r] = true
			}
		}
	}
	conds := map[string]bool{}
	for _, p := range ps {
		var names []string
		for n := range p.m.GetConditions() {
			names = append(names, n)
		}
		sort.Strings(names)
		for _, n := range names {
			if conds[n] {
				name := n
				out = append(out, conflict{"duplicate-condition", p.f.Name, name, lineOf(p.f.Contents, func(t, _ string) bool { return strings.HasPrefix(t, "condition "+name+"(") })})
				continue
			}
			conds[n] = true
		}
	}
	for _, p := range ps {
		for _, td := range p.m.GetTypeDefinitions() {
			if _, isExt := p.exts[td.GetType()]; !isExt {
				continue
			}
			tname := td.GetType()
			if _, ok := baseTypes[tname]; !ok {
				out = append(out, conflict{"unknown-extension", p.f.Name, tname, lineOf(p.f.Contents, func(t, _ string) bool { return t == "extend type "+tname })})
				continue
			}
			var rels []string
			for r := range td.GetRelations() {
				rels = append(rels, r)
			}
			sort.Strings(rels)
			for _, r := range rels {
				if baseRels[tname][r] {
					rname := r
					out = append(out, conflict{"duplicate-relation", p.f.Name, tname + "#" + rname, lineOf(p.f.Contents, func(t, ctx string) bool {
						return ctx == tname && strings.HasPrefix(t, "define "+rname+":")
					})})
					continue
				}
				baseRels[tname][r] = true
			}
		}
	}
	return out
}

func kindOfMessage(msg string) string {
	switch {
	case strings.HasPrefix(msg, "duplicate type definition"):
		return "duplicate-type"
	case strings.HasPrefix(msg, "duplicate condition"):
		return "duplicate-condition"
	case strings.HasPrefix(msg, "extended type"):
		return "unknown-extension"
	case strings.Contains(msg, "already exists on type"):
		return "duplicate-relation"
	case strings.HasPrefix(msg, "file is not a module"):
		return "not-a-module"
	}
	return "syntax"
}

func errorList(err error) []string {
	me, ok := err.(*transformer.ModuleValidationMultipleError)
	if !ok {
		return []string{"?" + err.Error()}
	}
	var out []string
	for _, e := range me.Errors {
		if se, ok := e.(*transformer.ModuleTransformationSingleError); ok {
			out = append(out, fmt.Sprintf("%s|%s|%d:%d-%d:%d|%s", se.File, kindOfMessage(se.Msg), se.Line.Start, se.Column.Start, se.Line.End, se.Column.End, se.Msg))
		} else {
			out = append(out, "|syntax|" + strings.SplitN(e.Error(), "\n", 2)[0])
		}
	}
	return out
}

func subsets(n, maxK int) [][]int {
	var out [][]int
	var rec func(start int, cur []int)
	rec = func(start int, cur []int) {
		if len(cur) > 0 {
			out = append(out, append([]int{}, cur...))
		}
		if len(cur) == maxK {
			return
		}
		for i := start; i < n; i++ {
			rec(i+1, append(cur, i))
		}
	}
	rec(0, nil)
	return out
}

func permsInt(xs []int) [][]int {
	if len(xs) <= 1 {
		return [][]int{append([]int{}, xs...)}
	}
	var out [][]int
	for i := range xs {
		rest := append(append([]int{}, xs[:i]...), xs[i+1:]...)
		for _, p := range permsInt(rest) {
			out = append(out, append([]int{xs[i]}, p...))
		}
	}
	return out
}

func TestBoundedB5(t *testing.T) {
	maxK, reps := 3, 6
	if thorough() {
		maxK, reps = 4, 20
	}
	scope := fmt.Sprintf("B5: every subset of <= %d files of a pool of %d module files (base types, extensions of the same and of different types, one file with two extensions, conflicts of every kind, a model-headed file, a file with a syntax error), every order, %d repetitions each", maxK, len(modulePool), reps)
	r := map[string]*boundedReport{}
	for _, p := range []string{"C07", "C12", "C16", "C13"} {
		r[p] = &boundedReport{Property: p, Check: "B5-module-sets", Function: "TransformModuleFilesToModel", Scope: scope, Exhaustive: true}
	}
	type job struct {
		sub    []int
		layout int // 0: as written; 1: every line ends in 14 blanks; 2: CRLF line ends
	}
	var jobs []job
	for _, sub := range subsets(len(modulePool), maxK) {
		jobs = append(jobs, job{sub, 0})
		if len(sub) <= 2 {
			// positions must not depend on what follows the declaration on its line
			jobs = append(jobs, job{sub, 1}, job{sub, 2})
		}
	}
	for _, jb := range jobs {
		sub := jb.sub
		successByPerm := map[bool]int{}
		var firstModelDigest string
		for _, perm := range permsInt(sub) {
			var files []transformer.ModuleFile
			var names []string
			for _, i := range perm {
				f := modulePool[i]
				switch jb.layout {
				case 1:
					f.Contents = strings.ReplaceAll(f.Contents, "\n", "              \n")
				case 2:
					f.Contents = strings.ReplaceAll(f.Contents, "\n", "\r\n")
				}
				files = append(files, f)
				names = append(names, f.Name)
			}
			id := strings.Join(names, ", ") + []string{"", " [trailing blanks]", " [CRLF]"}[jb.layout]
			want := specConflicts(files)
			var firstErrs []string
			var firstDigest string
			for k := 0; k < reps; k++ {
				for _, p := range []string{"C07", "C12", "C16", "C13"} {
					r[p].Cases++
				}
				in := append([]transformer.ModuleFile{}, files...)
				var m *openfgav1.AuthorizationModel
				var err error
				func() {
					defer func() {
						if x := recover(); x != nil {
							err = fmt.Errorf("PANIC: %v", x)
							r["C07"].violation("panic", id, "TransformModuleFilesToModel panicked: %v", x)
						}
					}()
					m, err = transformer.TransformModuleFilesToModel(in, "1.2")
				}()
				for i := range in {
					if in[i] != files[i] {
						r["C13"].violation("input-modified", id, "file list modified")
					}
				}
				if err != nil && strings.HasPrefix(err.Error(), "PANIC") {
					break
				}
				// a wrong verdict is C07's business; the order/determinism comparisons of C12 go on regardless
				verdictBad := (err == nil) != (len(want) == 0)
				if verdictBad && k == 0 {
					r["C07"].violation("verdict", id, "merge succeeded=%v, conflicts by the statement: %v (err=%v)", err == nil, want, firstLine(fmt.Sprint(err)))
				}
				if err != nil && m != nil {
					r["C07"].violation("partial-model", id, "error together with a model")
				}
				if err != nil {
					errs := errorList(err)
					if k == 0 {
						firstErrs = errs
						if !verdictBad {
							checkErrorSet(r, id, files, want, errs)
						}
					} else if strings.Join(errs, "\n") != strings.Join(firstErrs, "\n") {
						r["C12"].violation("error-list-varies-between-invocations", id, "two invocations on the same file list return different error lists:\n  %v\n  %v", firstErrs, errs)
					}
					continue
				}
				d := mergedDigest(m)
				if k == 0 {
					firstDigest = d
					if !verdictBad {
						checkMerged(r, id, files, m)
					}
				} else if d != firstDigest {
					r["C12"].violation("model-varies-between-invocations", id, "two invocations return different models")
				}
				if firstModelDigest == "" {
					firstModelDigest = sortedTypes(d)
				} else if sortedTypes(d) != firstModelDigest {
					r["C12"].violation("model-depends-on-file-order", id, "permuting the files changes more than the order of type definitions")
				}
			}
			successByPerm[len(firstErrs) == 0 && firstDigest != ""]++
		}
		if successByPerm[true] > 0 && successByPerm[false] > 0 {
			var names []string
			for _, i := range sub {
				names = append(names, modulePool[i].Name)
			}
			r["C12"].violation("verdict-depends-on-file-order", strings.Join(names, ", "), "the merge succeeds for %d orders of these files and fails for %d", successByPerm[true], successByPerm[false])
		}
		for _, p := range []string{"C07", "C12", "C16", "C13"} {
			r[p].Distinct++
		}
	}
	for _, p := range []string{"C07", "C12", "C16", "C13"} {
		r[p].emit(t)
	}
}

func sortedTypes(d string) string {
	parts := strings.Split(d, "\n@@")
	sort.Strings(parts)
	return strings.Join(parts, "\n@@")
}

// mergedDigest: canonical text of a merged model with attribution.
func mergedDigest(m *openfgav1.AuthorizationModel) string {
	var sb strings.Builder
	fmt.Fprintf(&sb, "schema %s", m.GetSchemaVersion())
	for _, td := range m.GetTypeDefinitions() {
		fmt.Fprintf(&sb, "\n@@type %s module=%s file=%s", td.GetType(), td.GetMetadata().GetModule(), td.GetMetadata().GetSourceInfo().GetFile())
		var rels []string
		for n := range td.GetRelations() {
			rels = append(rels, n)
		}
		sort.Strings(rels)
		for _, n := range rels {
			rm := td.GetMetadata().GetRelations()[n]
			mod, _ := utils.GetModuleForObjectTypeRelation(td, n)
			fmt.Fprintf(&sb, "\n  %s = %s [%s] module=%s file=%s viaUtils=%s", n, treeString(td.GetRelations()[n]), restrString(rm.GetDirectlyRelatedUserTypes()), rm.GetModule(), rm.GetSourceInfo().GetFile(), mod)
		}
	}
	var cn []string
	for n := range m.GetConditions() {
		cn = append(cn, n)
	}
	sort.Strings(cn)
	for _, n := range cn {
		c := m.GetConditions()[n]
		fmt.Fprintf(&sb, "\n@@condition %s module=%s file=%s {%s}", n, c.GetMetadata().GetModule(), c.GetMetadata().GetSourceInfo().GetFile(), strings.Join(strings.Fields(c.GetExpression()), " "))
	}
	return sb.String()
}

// checkMerged: on success the model is the exact attributed union (statement of C07).
func checkMerged(r map[string]*boundedReport, id string, files []transformer.ModuleFile, m *openfgav1.AuthorizationModel) {
	if m.GetSchemaVersion() != "1.2" {
		r["C07"].violation("schema-version", id, "schema version %q", m.GetSchemaVersion())
	}
	type relInfo struct{ module, file, def string }
	wantTypes := []string{}
	typeAttr := map[string][2]string{}
	rels := map[string]relInfo{}
	condAttr := map[string][2]string{}
	moduleOf := func(c string) string {
		return strings.TrimSpace(strings.TrimPrefix(strings.SplitN(c, "\n", 2)[0], "module"))
	}
	for _, f := range files {
		fm, exts, err := transformer.TransformModularDSLToProto(f.Contents)
		if err != nil {
			return
		}
		for _, td := range fm.GetTypeDefinitions() {
			_, isExt := exts[td.GetType()]
			if !isExt {
				wantTypes = append(wantTypes, td.GetType())
				typeAttr[td.GetType()] = [2]string{moduleOf(f.Contents), f.Name}
			}
			for n, u := range td.GetRelations() {
				ri := relInfo{def: treeString(u) + " [" + restrString(td.GetMetadata().GetRelations()[n].GetDirectlyRelatedUserTypes()) + "]"}
				if isExt {
					ri.module, ri.file = moduleOf(f.Contents), f.Name
				}
				rels[td.GetType()+"#"+n] = ri
			}
		}
		for n := range fm.GetConditions() {
			condAttr[n] = [2]string{moduleOf(f.Contents), f.Name}
		}
	}
	var gotTypes []string
	seenRel := map[string]bool{}
	for _, td := range m.GetTypeDefinitions() {
		gotTypes = append(gotTypes, td.GetType())
		if a := typeAttr[td.GetType()]; td.GetMetadata().GetModule() != a[0] || td.GetMetadata().GetSourceInfo().GetFile() != a[1] {
			r["C07"].violation("type-attribution", id, "type %s attributed to module %q file %q, declared in module %q file %q", td.GetType(), td.GetMetadata().GetModule(), td.GetMetadata().GetSourceInfo().GetFile(), a[0], a[1])
		}
		for n, u := range td.GetRelations() {
			key := td.GetType() + "#" + n
			seenRel[key] = true
			want, ok := rels[key]
			if !ok {
				r["C07"].violation("invented-relation", id, "relation %s is in the merged model but in no file", key)
				continue
			}
			rm := td.GetMetadata().GetRelations()[n]
			if got := treeString(u) + " [" + restrString(rm.GetDirectlyRelatedUserTypes()) + "]"; got != want.def {
				r["C07"].violation("rewrite-changed", id, "relation %s is %s, declared as %s", key, got, want.def)
			}
			if want.file != "" && (rm.GetModule() != want.module || rm.GetSourceInfo().GetFile() != want.file) {
				r["C07"].violation("relation-attribution", id, "extension relation %s attributed to module %q file %q, added by module %q file %q", key, rm.GetModule(), rm.GetSourceInfo().GetFile(), want.module, want.file)
			}
			mod, err := utils.GetModuleForObjectTypeRelation(td, n)
			wantMod := typeAttr[td.GetType()][0]
			if want.file != "" {
				wantMod = want.module
			}
			if err != nil || mod != wantMod {
				r["C07"].violation("relation-attribution", id, "GetModuleForObjectTypeRelation(%s) = %q, %v; want %q", key, mod, err, wantMod)
			}
		}
	}
	for key := range rels {
		if !seenRel[key] {
			r["C07"].violation("lost-relation", id, "relation %s declared in a file is missing from the merged model", key)
		}
	}
	if strings.Join(gotTypes, ",") != strings.Join(wantTypes, ",") {
		r["C07"].violation("types", id, "types %v, declared (file order, declaration order) %v", gotTypes, wantTypes)
	}
	for n, c := range m.GetConditions() {
		if a, ok := condAttr[n]; !ok || c.GetMetadata().GetModule() != a[0] || c.GetMetadata().GetSourceInfo().GetFile() != a[1] {
			r["C07"].violation("condition-attribution", id, "condition %s attributed to module %q file %q", n, c.GetMetadata().GetModule(), c.GetMetadata().GetSourceInfo().GetFile())
		}
	}
	if len(m.GetConditions()) != len(condAttr) {
		r["C07"].violation("conditions", id, "%d conditions in the model, %d declared", len(m.GetConditions()), len(condAttr))
	}
}

// checkErrorSet: every conflict of the statement is reported against its file (C07), on the line of the conflicting
// declaration itself (C16).
func checkErrorSet(r map[string]*boundedReport, id string, files []transformer.ModuleFile, want []conflict, errs []string) {
	contents := map[string]string{}
	for _, f := range files {
		contents[f.Name] = f.Contents
	}
	type key struct{ file, kind string }
	got := map[key][]string{}
	for _, e := range errs {
		p := strings.SplitN(e, "|", 4)
		if len(p) < 3 {
			continue
		}
		got[key{p[0], p[1]}] = append(got[key{p[0], p[1]}], e)
		if p[1] != "syntax" && p[0] == "" {
			r["C07"].violation("error-without-file", id, "error does not name the offending file: %s", e)
		}
	}
	for _, c := range want {
		k := key{c.file, c.kind}
		if c.kind == "syntax" {
			// syntax errors carry no file name (they come from the parser): at least one error without file
			if len(got[key{"", "syntax"}]) == 0 {
				r["C07"].violation("missing-error", id, "file %s does not parse but no syntax error is reported", c.file)
			}
			continue
		}
		if len(got[k]) == 0 {
			r["C07"].violation("missing-error/"+c.kind, id, "conflict %s %q in %s is not reported against that file; errors: %v", c.kind, c.name, c.file, errs)
			continue
		}
		if c.line < 0 {
			continue
		}
		// position: some error of that kind and file stands on the declaration's own line, and its column span is the name
		okLine := false
		for _, e := range got[k] {
			var ls, cs, le, ce int
			p := strings.SplitN(e, "|", 4)
			fmt.Sscanf(p[2], "%d:%d-%d:%d", &ls, &cs, &le, &ce)
			lines := strings.Split(contents[c.file], "\n")
			if ls < 0 || ls >= len(lines) || cs < 0 || ce > len(lines[ls]) {
				r["C16"].violation("position-outside-input", id, "position %d:%d-%d lies outside file %s", ls, cs, ce, c.file)
				continue
			}
			if ls == c.line {
				okLine = true
				name := c.name
				if i := strings.Index(name, "#"); i >= 0 {
					name = name[i+1:]
				}
				// the column span must be the declared name token itself (right after the keyword)
				wantCol := -1
				for _, kw := range []string{"define ", "extend type ", "type ", "condition "} {
					if i := strings.Index(lines[ls], kw); i >= 0 && strings.HasPrefix(strings.TrimSpace(lines[ls]), kw) {
						wantCol = i + len(kw)
						break
					}
				}
				if cs != wantCol || ce != wantCol+len(name) {
					r["C16"].violation("column-not-on-the-declared-name", id, "%s %q in %s: columns %d-%d of %q, the name stands at %d-%d", c.kind, c.name, c.file, cs, ce, lines[ls], wantCol, wantCol+len(name))
				}
			}
		}
		if !okLine {
			r["C16"].violation("line-not-the-declaration/"+c.kind, id, "%s %q in %s stands on line %d, reported: %v", c.kind, c.name, c.file, c.line, got[k])
		}
	}
	// no invented conflicts
	wantKeys := map[key]int{}
	for _, c := range want {
		if c.kind != "syntax" {
			wantKeys[key{c.file, c.kind}]++
		}
	}
	for k, es := range got {
		if k.kind == "syntax" {
			continue
		}
		if len(es) > wantKeys[k] {
			r["C07"].violation("spurious-error/"+k.kind, id, "%d errors of kind %s against %s, the statement gives %d: %v", len(es), k.kind, k.file, wantKeys[k], es)
		}
	}
}
