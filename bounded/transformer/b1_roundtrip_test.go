package transformer_test

// B1: round trips on all small models (stand-in for the ANTLR-backed TransformDSLToProto; properties C01, C02, C13,
// C14). Contract checked at run time on the real code, for every model of the scope:
//   TransformJSONProtoToDSL(m) succeeds  <=>  expressible(x)                                   (C02)
//   on success TransformDSLToProto(dsl) succeeds and equals normalise(m)                        (C02)
//   printing the parsed model - directly and through the JSON string API - gives dsl again      (C01)
//   printing does not modify m; repeated printing is byte-identical; source comments are inert  (C13, C14)

import (
	"strings"
	"testing"

	openfgav1 "github.com/openfga/api/proto/openfga/v1"
	"google.golang.org/protobuf/encoding/protojson"
	"google.golang.org/protobuf/proto"

	"github.com/openfga/language/pkg/go/transformer"
)

func restrictionVariants() [][]*openfgav1.RelationReference {
	return [][]*openfgav1.RelationReference{
		{ref("user")},
		{ref("user"), refWild("user"), refRel("group", "member"), refCond("user", "c")},
	}
}

func TestBoundedB1(t *testing.T) {
	depth, width := 2, 2
	if thorough() {
		depth, width = 2, 3
	}
	reps := map[string]*boundedReport{}
	for _, p := range []string{"C01", "C02", "C13", "C14"} {
		reps[p] = &boundedReport{Property: p, Check: "B1-roundtrip", Function: "TransformDSLToProto / TransformJSONProtoToDSL",
			Scope: "B1: every rewrite tree of operator depth <= 2 (root arity <= " + string(rune('0'+width)) + ", nested binary) over {this, computed, tuple-to-userset} x 2 restriction lists, one condition with int/string/list parameters", Exhaustive: true}
	}
	shapes := genShapes(depth, width, 3)
	for _, sh := range shapes {
		for ri, restr := range restrictionVariants() {
			x := sh.build(stdLeaves())
			if ri > 0 && countThis(x) == 0 {
				continue
			}
			m := modelWith(x, restr, ri > 0)
			id := treeString(x) + " / [" + restrString(restr) + "]"
			before := proto.Clone(m)
			for _, r := range reps {
				r.Cases++
				r.Distinct++
			}
			dsl, err := transformer.TransformJSONProtoToDSL(m)
			if !proto.Equal(before, m) {
				reps["C13"].violation("input-modified", id, "TransformJSONProtoToDSL modified its input model")
			}
			want := expressible(x)
			if (err == nil) != want {
				reps["C02"].violation("verdict", id, "conversion succeeded=%v but expressible=%v (err=%v)", err == nil, want, err)
				continue
			}
			if err != nil {
				if !strings.Contains(err.Error(), "not supported by the OpenFGA DSL syntax") {
					reps["C02"].violation("error-kind", id, "unexpected error kind: %v", err)
				}
				continue
			}
			reps["C02"].sample(id + " => " + strings.TrimSpace(strings.SplitN(dsl, "define x:", 2)[1][:min(60, len(strings.SplitN(dsl, "define x:", 2)[1]))]))
			// C14: repeated printing is byte-identical; comments are inert
			for k := 0; k < 3; k++ {
				again, err2 := transformer.TransformJSONProtoToDSL(m)
				if err2 != nil || again != dsl {
					reps["C14"].violation("not-repeatable", id, "repeated printing differs")
					break
				}
			}
			withSrc, err3 := transformer.TransformJSONProtoToDSL(m, transformer.WithIncludeSourceInformation(true))
			if err3 != nil || stripComments(withSrc) != stripComments(dsl) {
				reps["C14"].violation("comments-not-inert", id, "output with source information differs beyond comments")
			}
			// C02: parse back
			m2, err := transformer.TransformDSLToProto(dsl)
			if err != nil {
				reps["C02"].violation("output-not-parseable", id, "produced DSL is rejected by the parser: %v", firstLine(err.Error()))
				if modelDigest(m, true) == modelDigest(m, false) {
					// m is its own normal form, i.e. a model the parser returns for some DSL text: its rendering must parse (C01)
					reps["C01"].violation("rendering-not-parseable", id, "the rendering of a parser-shaped model is rejected by the parser: %v", firstLine(err.Error()))
				}
				continue
			}
			if got, exp := modelDigest(m2, false), modelDigest(m, true); got != exp {
				reps["C02"].violation("roundtrip-differs", id, "parse(print(m)) differs from normalise(m):\n got %s\nwant %s", got, exp)
				if modelDigest(m, true) == modelDigest(m, false) {
					// m is its own normal form, i.e. the model the parser returns for some DSL text (C01: DSL -> model -> DSL -> model
					// is the identity): printing and parsing it must give it back
					reps["C01"].violation("roundtrip-differs", id, "parse(print(m)) differs from the parser-shaped model m:\n got %s\nwant %s", got, exp)
				}
				continue
			}
			// C01: the parsed model printed again - directly and through JSON - is byte-stable
			dsl2, err := transformer.TransformJSONProtoToDSL(m2)
			if err != nil {
				reps["C01"].violation("printer-rejects-parser-model", id, "printer rejects the model returned by the parser: %v", err)
				continue
			}
			if dsl2 != dsl {
				reps["C01"].violation("not-byte-stable", id, "print(parse(dsl)) != dsl")
			}
			js, err := protojson.Marshal(m2)
			if err == nil {
				dsl3, err := transformer.TransformJSONStringToDSL(string(js))
				if err != nil || *dsl3 != dsl {
					reps["C01"].violation("json-path-not-stable", id, "JSON string API path is not byte-stable (err=%v)", err)
				}
			}
			m3, err := transformer.TransformDSLToProto(dsl2)
			if err != nil || modelDigest(m3, false) != modelDigest(m2, false) {
				reps["C01"].violation("second-roundtrip-differs", id, "second round trip changes the model")
			}
		}
	}
	for _, p := range []string{"C01", "C02", "C13", "C14"} {
		reps[p].emit(t)
	}
}

func stripComments(s string) string {
	var out []string
	for _, l := range strings.Split(s, "\n") {
		if i := strings.Index(l, " #"); i >= 0 {
			l = l[:i]
		}
		out = append(out, strings.TrimRight(l, " "))
	}
	return strings.Join(out, "\n")
}

func firstLine(s string) string {
	ls := strings.Split(strings.TrimSpace(s), "\n")
	if len(ls) > 2 {
		return ls[0] + " | " + strings.TrimSpace(ls[1])
	}
	return strings.Join(ls, " | ")
}
