package main

// Evaluation of contract expressions to terms, relative to an environment (state, old state, bindings).

import (
	"fmt"
	"path/filepath"
	"go/constant"
	"go/token"
	"go/types"
	"sort"
	"strings"

	"golang.org/x/tools/go/ssa"
)

type cval struct {
	t     *Term
	ty    types.Type // Go type, nil for ghost values
	ghost string     // "set" for ghost sets
	isNil bool       // untyped nil literal
	isRef bool       // t is the address of a by-value struct of type ty
	mget  *Term      // for a slice-valued map lookup m[k] with a bound variable in k: the same lookup in function form (MapGet)
}

type Env struct {
	e        *Exec
	st       *State
	old      *State
	pre      *State // loop entry
	names    map[string]cval
	oldNames map[string]cval
	preNames map[string]cval
	pkg      *types.Package
	bound    map[string]cval
	lookup   func(name string, which int) (cval, bool) // which: 0 cur, 1 old, 2 pre
	mode     int
}

type ContractError struct{ Msg string }

func cfail(f string, a ...any) { panic(ContractError{fmt.Sprintf(f, a...)}) }

func (e *Exec) evalContractBool(x *CExpr, env *Env, what string) *Term {
	v := e.evalContract(x, env, what)
	if v.t.Sort != SBool {
		cfail("%s: expression %s is not boolean", what, x)
	}
	return v.t
}

func (e *Exec) evalContract(x *CExpr, env *Env, what string) (res cval) {
	defer func() {
		if r := recover(); r != nil {
			if ce, ok := r.(ContractError); ok {
				fn := ""
				if e.Fn != nil {
					fn = FuncKey(e.root().Fn)
				}
				panic(Unsupported{fmt.Sprintf("contract error in %s (%s): %s", fn, what, ce.Msg)})
			}
			panic(r)
		}
	}()
	save := e.specMode
	e.specMode = true
	defer func() { e.specMode = save }()
	return env.eval(x)
}

func (env *Env) with(name string, v cval) *Env {
	n := *env
	n.bound = map[string]cval{}
	for k, x := range env.bound {
		n.bound[k] = x
	}
	n.bound[name] = v
	return &n
}

func (env *Env) inState(which int) *Env {
	n := *env
	n.mode = which
	switch which {
	case 1:
		if env.old == nil {
			cfail("old() not available here")
		}
		n.st = env.old
		if env.oldNames != nil {
			n.names = env.oldNames
		}
	case 2:
		if env.pre == nil {
			cfail("pre() only available in loop invariants")
		}
		n.st = env.pre
		if env.preNames != nil {
			n.names = env.preNames
		}
	}
	return &n
}

func (env *Env) resolveName(name string) (cval, bool) {
	if v, ok := env.bound[name]; ok {
		return v, true
	}
	if v, ok := env.names[name]; ok {
		return v, true
	}
	if env.lookup != nil {
		if v, ok := env.lookup(name, env.mode); ok {
			return v, true
		}
	}
	switch name {
	case "nil":
		return cval{isNil: true, t: IntLit(0)}, true
	case "true":
		return cval{t: True}, true
	case "false":
		return cval{t: False}, true
	}
	// package-level objects
	if env.pkg != nil {
		if obj := env.pkg.Scope().Lookup(name); obj != nil {
			return env.objVal(obj)
		}
	}
	return cval{}, false
}

func (env *Env) objVal(obj types.Object) (cval, bool) {
	switch o := obj.(type) {
	case *types.Const:
		return cval{t: constTerm(o.Val(), o.Type()), ty: o.Type()}, true
	case *types.Var:
		if o.Parent() == o.Pkg().Scope() {
			c := Const(globalComp(o.Pkg().Name(), o.Name()), sortOf(o.Type()))
			if sp := env.e.P.Prog.Package(o.Pkg()); sp != nil {
				if g, ok := sp.Members[o.Name()].(*ssa.Global); ok {
					env.e.root().noteGlobal(g, c)
				}
			}
			return cval{t: c, ty: o.Type()}, true
		}
	}
	return cval{}, false
}

func constTerm(v constant.Value, t types.Type) *Term {
	switch v.Kind() {
	case constant.Bool:
		return BoolLit(constant.BoolVal(v))
	case constant.String:
		return GoStr(constant.StringVal(v))
	case constant.Int:
		return BigIntLit(v.ExactString())
	case constant.Float:
		if i := constant.ToInt(v); i.Kind() == constant.Int {
			return BigIntLit(i.ExactString())
		}
	}
	cfail("unsupported constant %s", v)
	return nil
}

func (env *Env) eval(x *CExpr) cval {
	e := env.e
	switch x.Kind {
	case "int":
		return cval{t: BigIntLit(x.Name), ty: types.Typ[types.Int]}
	case "str":
		return cval{t: GoStr(x.Str), ty: types.Typ[types.String]}
	case "ident":
		if v, ok := env.resolveName(x.Name); ok {
			return v
		}
		cfail("unknown name %q", x.Name)
	case "un":
		a := env.eval(x.Args[0])
		if x.Name == "!" {
			return cval{t: Not(a.t), ty: types.Typ[types.Bool]}
		}
		return cval{t: Sub(IntLit(0), a.t), ty: a.ty}
	case "bin":
		return env.evalBin(x)
	case "sel":
		// package-qualified name?
		if id := x.Args[0]; id.Kind == "ident" {
			if _, ok := env.resolveName(id.Name); !ok {
				if pk := env.importedPkg(id.Name); pk != nil {
					if obj := pk.Scope().Lookup(x.Name); obj != nil {
						if v, ok := env.objVal(obj); ok {
							return v
						}
					}
					cfail("unknown %s.%s", id.Name, x.Name)
				}
			}
		}
		b := env.eval(x.Args[0])
		return env.selectField(b, x.Name)
	case "index":
		a := env.eval(x.Args[0])
		i := env.eval(x.Args[1])
		return env.indexVal(a, i)
	case "slice":
		a := env.eval(x.Args[0])
		var lo, hi *Term
		lo = IntLit(0)
		if x.Args[1] != nil {
			lo = env.eval(x.Args[1]).t
		}
		if a.t.Sort == SString {
			if x.Args[2] != nil {
				hi = env.eval(x.Args[2]).t
			} else {
				hi = mk("str.len", SInt, a.t)
			}
			return cval{t: mk("str.substr", SString, a.t, lo, Sub(hi, lo)), ty: a.ty}
		}
		if a.t.Sort == SSlice {
			if x.Args[2] != nil {
				hi = env.eval(x.Args[2]).t
			} else {
				hi = SLen(a.t)
			}
			return cval{t: MkSlice(SArr(a.t), Add(SOff(a.t), lo), Sub(hi, lo), Sub(SCap(a.t), lo)), ty: a.ty}
		}
		cfail("cannot slice %s", x.Args[0])
	case "call":
		return env.evalCall(x)
	case "method":
		return env.evalMethod(x)
	case "assert":
		a := env.eval(x.Args[0])
		ty := env.resolveType(x.Str)
		return cval{t: Unbox(IVal(a.t), sortOf(ty)), ty: ty}
	case "quant":
		cur := env
		var vars []*Term
		var guards []*Term
		for _, v := range x.Vars {
			ty, srt, ghost := env.resolveTypeOrGhost(v.Type)
			bv := BoundVar(v.Name, srt)
			vars = append(vars, bv)
			cur = cur.with(v.Name, cval{t: bv, ty: ty, ghost: ghost})
			_ = guards
		}
		body := cur.eval(x.Args[0])
		if body.t.Sort != SBool {
			cfail("quantifier body is not boolean: %s", x.Args[0])
		}
		if x.Name == "forall" {
			return cval{t: Forall(vars, body.t), ty: types.Typ[types.Bool]}
		}
		return cval{t: Exists(vars, body.t), ty: types.Typ[types.Bool]}
	case "let":
		cur := env
		for i, v := range x.Vars {
			val := cur.eval(x.Args[i])
			cur = cur.with(v.Name, val)
		}
		return cur.eval(x.Args[len(x.Args)-1])
	}
	_ = e
	cfail("cannot evaluate %s", x)
	return cval{}
}

func (env *Env) importedPkg(name string) *types.Package {
	if env.pkg == nil {
		return nil
	}
	for _, imp := range env.pkg.Imports() {
		if imp.Name() == name {
			return imp
		}
	}
	// common aliases
	for _, imp := range env.pkg.Imports() {
		if name == "openfgav1" && imp.Path() == "github.com/openfga/api/proto/openfga/v1" {
			return imp
		}
		if name == "parser" && strings.HasSuffix(imp.Path(), "/pkg/go/gen") {
			return imp
		}
	}
	return nil
}

func (env *Env) evalBin(x *CExpr) cval {
	op := x.Name
	boolT := types.Typ[types.Bool]
	switch op {
	case "&&":
		return cval{t: And(env.eval(x.Args[0]).t, env.eval(x.Args[1]).t), ty: boolT}
	case "||":
		return cval{t: Or(env.eval(x.Args[0]).t, env.eval(x.Args[1]).t), ty: boolT}
	case "==>":
		return cval{t: Implies(env.eval(x.Args[0]).t, env.eval(x.Args[1]).t), ty: boolT}
	case "<==>":
		return cval{t: Eq(env.eval(x.Args[0]).t, env.eval(x.Args[1]).t), ty: boolT}
	}
	a, b := env.eval(x.Args[0]), env.eval(x.Args[1])
	switch op {
	case "==", "!=":
		var t *Term
		switch {
		case a.isNil && b.isNil:
			t = True
		case b.isNil:
			t = isNilTerm(a)
		case a.isNil:
			t = isNilTerm(b)
		default:
			if a.t.Sort != b.t.Sort && a.t.Sort.Base() != b.t.Sort.Base() {
				cfail("comparison of different sorts: %s (%s) vs %s (%s)", x.Args[0], a.t.Sort, x.Args[1], b.t.Sort)
			}
			t = Eq(a.t, b.t)
		}
		if op == "!=" {
			t = Not(t)
		}
		return cval{t: t, ty: boolT}
	case "<", "<=", ">", ">=":
		if a.t.Sort == SString {
			switch op {
			case "<":
				return cval{t: mk("str.<", SBool, a.t, b.t), ty: boolT}
			case "<=":
				return cval{t: mk("str.<=", SBool, a.t, b.t), ty: boolT}
			case ">":
				return cval{t: mk("str.<", SBool, b.t, a.t), ty: boolT}
			default:
				return cval{t: mk("str.<=", SBool, b.t, a.t), ty: boolT}
			}
		}
		switch op {
		case "<":
			return cval{t: Lt(a.t, b.t), ty: boolT}
		case "<=":
			return cval{t: Le(a.t, b.t), ty: boolT}
		case ">":
			return cval{t: Lt(b.t, a.t), ty: boolT}
		default:
			return cval{t: Le(b.t, a.t), ty: boolT}
		}
	case "+":
		if a.t.Sort == SString {
			return cval{t: mk("str.++", SString, a.t, b.t), ty: a.ty}
		}
		return cval{t: Add(a.t, b.t), ty: a.ty}
	case "-":
		return cval{t: Sub(a.t, b.t), ty: a.ty}
	case "*":
		return cval{t: Mul(a.t, b.t), ty: a.ty}
	case "/":
		return cval{t: mk("div", SInt, a.t, b.t), ty: a.ty}
	case "%":
		return cval{t: mk("mod", SInt, a.t, b.t), ty: a.ty}
	}
	cfail("unknown operator %s", op)
	return cval{}
}

func isNilTerm(a cval) *Term {
	switch a.t.Sort.Base() {
	case SInt:
		return Eq(a.t, IntLit(0))
	case SSlice:
		return Eq(SArr(a.t), IntLit(0))
	case SIface:
		return Eq(ITag(a.t), IntLit(0))
	}
	cfail("cannot compare %s with nil", a.t.Sort)
	return nil
}

func (env *Env) selectField(b cval, name string) cval {
	if b.ty == nil {
		cfail("field %s of untyped value", name)
	}
	var st types.Type
	isPtr := false
	if p, ok := b.ty.Underlying().(*types.Pointer); ok {
		st = p.Elem()
		isPtr = true
	} else {
		st = b.ty
	}
	if b.isRef {
		isPtr = true
		st = b.ty
	}
	s, ok := st.Underlying().(*types.Struct)
	if !ok {
		cfail("field %s of non-struct %s", name, b.ty)
	}
	idx := -1
	for i := 0; i < s.NumFields(); i++ {
		if s.Field(i).Name() == name {
			idx = i
		}
	}
	if idx < 0 {
		// promoted through embedded fields
		for i := 0; i < s.NumFields(); i++ {
			if s.Field(i).Embedded() {
				inner := env.selectField(b, s.Field(i).Name())
				if r, ok := env.trySelect(inner, name); ok {
					return r
				}
			}
		}
		cfail("no field %s in %s", name, st)
	}
	ft := s.Field(idx).Type()
	if isPtr {
		if isStruct(ft) {
			return cval{t: SubRef(b.t, fieldID(typeKey(st), idx)), ty: ft, isRef: true}
		}
		l := &Loc{Kind: LField, Ref: b.t, Struct: st, Field: idx, Type: ft}
		v := env.e.loadIn(l, env.st)
		return cval{t: v.(*Term), ty: ft}
	}
	si := structDT(st)
	return cval{t: si.Get(b.t, idx), ty: ft}
}

func (env *Env) trySelect(b cval, name string) (r cval, ok bool) {
	defer func() {
		if x := recover(); x != nil {
			if _, isCE := x.(ContractError); isCE {
				ok = false
				return
			}
			panic(x)
		}
	}()
	return env.selectField(b, name), true
}

func (env *Env) indexVal(a, i cval) cval {
	if a.ghost == "set" {
		return cval{t: Select(a.t, i.t), ty: types.Typ[types.Bool]}
	}
	if a.ty == nil {
		if a.t.Sort.IsArray() {
			return cval{t: Select(a.t, i.t)}
		}
		cfail("index of untyped value")
	}
	switch t := a.ty.Underlying().(type) {
	case *types.Slice:
		if a.mget != nil {
			return cval{t: env.e.elemAt(env.st, a.mget, i.t, sortOf(t.Elem())), ty: t.Elem()}
		}
		return cval{t: env.e.elemAt(env.st, a.t, i.t, sortOf(t.Elem())), ty: t.Elem()}
	case *types.Map:
		k, v := mapSorts(a.ty)
		has := And(Neq(a.t, IntLit(0)), Select(env.e.mapDom(env.st, a.t, k, v), i.t))
		val := Ite(has, Select(env.e.mapVal(env.st, a.t, k, v), i.t), zeroOfSort(v))
		if v == SSlice {
			// Slice-valued map. An ELEMENT of m[k] under a quantifier over k (m[k][j]) needs a trigger that covers j, and
			// the guarded lookup ite(m != nil && dom[k], val[k], nil) cannot occur in one (no ite/and in patterns). The
			// element access therefore goes through the lookup in function form (MapGet, with an instantiation axiom like
			// at_<sort>); facts that only compare headers (arr(m[a]) != arr(m[b])) keep the plain form, which the solvers'
			// model-based instantiation handles well. Ground lookups record the equality of both forms.
			mg := MapGet(Neq(a.t, IntLit(0)), env.e.mapDom(env.st, a.t, k, v), env.e.mapVal(env.st, a.t, k, v), i.t, k, v)
			if i.t.flags&flagHasBound != 0 {
				return cval{t: val, ty: t.Elem(), mget: mg}
			}
			env.e.assumeAlways(Eq(mg, val))
		}
		return cval{t: val, ty: t.Elem()}
	case *types.Basic:
		if t.Info()&types.IsString != 0 {
			return cval{t: mk("str.at", SString, a.t, i.t), ty: a.ty}
		}
	case *types.Array:
		return cval{t: Select(a.t, i.t), ty: t.Elem()}
	}
	cfail("cannot index %s", a.ty)
	return cval{}
}

// resolveType evaluates a Go type expression in the scope of the package's contract file.
func (env *Env) resolveType(text string) types.Type {
	text = strings.TrimSpace(text)
	p := env.e.P
	var tp *types.Package = env.pkg
	var positions []token.Pos
	if tp != nil {
		if pk := p.TPkgs[tp.Path()]; pk != nil {
			for i, f := range pk.Syntax {
				if bn := filepath.Base(pk.CompiledGoFiles[i]); strings.HasPrefix(bn, "contracts") && strings.HasSuffix(bn, "_verif.go") {
					pos := f.End() - 1
					if n := len(f.Decls); n > 0 {
						pos = f.Decls[n-1].End()
					}
					positions = append(positions, pos)
				}
			}
		}
	}
	if len(positions) == 0 {
		positions = append(positions, token.NoPos)
	}
	// the imports of every contract file of the package are tried (a type may be importable from only one of them)
	var lastErr error
	for _, pos := range positions {
		tv, err := types.Eval(p.Fset, tp, pos, text)
		if err != nil {
			lastErr = err
			continue
		}
		if !tv.IsType() {
			cfail("%q is not a type", text)
		}
		return types.Unalias(tv.Type)
	}
	cfail("cannot resolve type %q: %v", text, lastErr)
	return nil
}

func (env *Env) resolveTypeOrGhost(text string) (types.Type, Sort, string) {
	text = strings.TrimSpace(text)
	if strings.HasPrefix(text, "set[") && strings.HasSuffix(text, "]") {
		inner := env.resolveType(text[4 : len(text)-1])
		return nil, ArraySort(sortOf(inner), SBool), "set"
	}
	if text == "ref" {
		return nil, SInt, "ref"
	}
	ty := env.resolveType(text)
	return ty, sortOf(ty), ""
}

// ---------- calls ----------

func (env *Env) evalCall(x *CExpr) cval {
	e := env.e
	boolT := types.Typ[types.Bool]
	intT := types.Typ[types.Int]
	strT := types.Typ[types.String]
	arg := func(i int) cval {
		if i >= len(x.Args) {
			cfail("%s: missing argument %d", x.Name, i)
		}
		return env.eval(x.Args[i])
	}
	typeArg := func(i int) types.Type {
		a := x.Args[i]
		switch a.Kind {
		case "str":
			return env.resolveType(a.Str)
		case "ident":
			return env.resolveType(a.Name)
		case "sel":
			return env.resolveType(a.Args[0].Name + "." + a.Name)
		}
		cfail("%s: expected a type argument", x.Name)
		return nil
	}
	switch x.Name {
	case "old":
		return env.inState(1).eval(x.Args[0])
	case "pre":
		return env.inState(2).eval(x.Args[0])
	case "len":
		a := arg(0)
		switch a.t.Sort {
		case SSlice:
			return cval{t: SLen(a.t), ty: intT}
		case SString:
			return cval{t: mk("str.len", SInt, a.t), ty: intT}
		}
		if a.ghost == "set" {
			return cval{t: e.Card(a.t), ty: intT}
		}
		if a.ty != nil {
			if _, ok := a.ty.Underlying().(*types.Map); ok {
				k, v := mapSorts(a.ty)
				return cval{t: Ite(Eq(a.t, IntLit(0)), IntLit(0), e.Card(e.mapDom(env.st, a.t, k, v))), ty: intT}
			}
		}
		cfail("len of %s", x.Args[0])
	case "cap":
		return cval{t: SCap(arg(0).t), ty: intT}
	case "arr":
		return cval{t: SArr(arg(0).t), ty: intT}
	case "off":
		return cval{t: SOff(arg(0).t), ty: intT}
	case "ite":
		c, a, b := arg(0), arg(1), arg(2)
		if a.isNil && !b.isNil {
			a.t, a.ty = zeroOfSort(b.t.Sort), b.ty
		}
		if b.isNil && !a.isNil {
			b.t = zeroOfSort(a.t.Sort)
		}
		return cval{t: Ite(c.t, a.t, b.t), ty: a.ty, ghost: a.ghost}
	case "has":
		m, k := arg(0), arg(1)
		if m.ghost == "set" {
			return cval{t: Select(m.t, k.t), ty: boolT}
		}
		ks, vs := mapSorts(m.ty)
		return cval{t: And(Neq(m.t, IntLit(0)), Select(e.mapDom(env.st, m.t, ks, vs), k.t)), ty: boolT}
	case "keys":
		m := arg(0)
		ks, vs := mapSorts(m.ty)
		return cval{t: Ite(Eq(m.t, IntLit(0)), ConstArr(ArraySort(ks, SBool), False), e.mapDom(env.st, m.t, ks, vs)), ghost: "set"}
	case "empty":
		ty := typeArg(0)
		return cval{t: ConstArr(ArraySort(sortOf(ty), SBool), False), ghost: "set"}
	case "add":
		s, k := arg(0), arg(1)
		return cval{t: Store(s.t, k.t, True), ghost: "set"}
	case "is":
		a := arg(0)
		ty := typeArg(1)
		return cval{t: Eq(ITag(a.t), tagOf(ty)), ty: boolT}
	case "dyn":
		// dyn(x, T): payload of interface x as a value of type T
		a := arg(0)
		ty := typeArg(1)
		return cval{t: Unbox(IVal(a.t), sortOf(ty)), ty: ty}
	case "wraps":
		fn := DeclFun("wraps", []Sort{SIface, SIface}, SBool)
		return cval{t: App(fn, SBool, arg(0).t, arg(1).t), ty: boolT}
	case "hasPrefix":
		return cval{t: mk("str.prefixof", SBool, arg(1).t, arg(0).t), ty: boolT}
	case "hasSuffix":
		return cval{t: mk("str.suffixof", SBool, arg(1).t, arg(0).t), ty: boolT}
	case "contains":
		return cval{t: mk("str.contains", SBool, arg(0).t, arg(1).t), ty: boolT}
	case "indexOf":
		return cval{t: mk("str.indexof", SInt, arg(0).t, arg(1).t, IntLit(0)), ty: intT}
	case "substr":
		return cval{t: mk("str.substr", SString, arg(0).t, arg(1).t, arg(2).t), ty: strT}
	case "matches":
		if x.Args[1].Kind != "str" {
			cfail("matches: second argument must be a string literal (RE2 syntax)")
		}
		re, err := RegexToSMT(x.Args[1].Str)
		if err != nil {
			cfail("matches: %v", err)
		}
		return cval{t: mk("str.in_re", SBool, arg(0).t, re), ty: boolT}
	case "fresh":
		// fresh(x): x was allocated during the call (not an object of the entry heap)
		a := arg(0)
		if env.old == nil {
			cfail("fresh() needs an old state")
		}
		var r *Term
		switch a.t.Sort.Base() {
		case SInt:
			r = a.t
		case SSlice:
			r = SArr(a.t)
		case SIface:
			r = IVal(a.t)
		default:
			cfail("fresh of %s", a.t.Sort)
		}
		return cval{t: Ge(RootOf(r), env.old.next), ty: boolT}
	case "allocated":
		// allocated(x): x is an object of the heap in the state the expression is evaluated in
		a := arg(0)
		r := a.t
		if a.t.Sort == SSlice {
			r = SArr(a.t)
		}
		f := And(Lt(IntLit(0), r), Lt(r, env.st.next))
		if a.ty != nil {
			if p, ok := a.ty.Underlying().(*types.Pointer); ok {
				f = And(f, Eq(RType(r), tagOf(p.Elem())))
			}
		}
		return cval{t: f, ty: boolT}
	case "isold":
		a := arg(0)
		r := a.t
		if a.t.Sort == SSlice {
			r = SArr(a.t)
		}
		st := env.old
		if st == nil {
			st = env.st
		}
		return cval{t: Lt(RootOf(r), st.next), ty: boolT}
	case "trimSpace":
		return cval{t: e.trimModel("m_trimSpace", arg(0).t, nil, true, true), ty: strT}
	case "trimLeft":
		return cval{t: e.trimModel("m_trimLeft", arg(0).t, arg(1).t, true, false), ty: strT}
	case "trimRight":
		return cval{t: e.trimModel("m_trimRight", arg(0).t, arg(1).t, false, true), ty: strT}
	case "re":
		// re("pattern"): the language of strings fully matched by the RE2 pattern (pattern must be anchored ^...$)
		if x.Args[0].Kind != "str" {
			cfail("re: expected a string literal")
		}
		r, err := RegexToSMT(x.Args[0].Str)
		if err != nil {
			cfail("re: %v", err)
		}
		return cval{t: r, ghost: "reglan"}
	case "lang":
		return env.langOf(x)
	case "cat", "union", "inter":
		var parts []*Term
		for i := range x.Args {
			a := arg(i)
			if a.t.Sort == SString {
				parts = append(parts, mk("str.to_re", SRegLan, a.t))
			} else if a.t.Sort == SRegLan {
				parts = append(parts, a.t)
			} else {
				cfail("%s: argument %d is neither a string nor a language", x.Name, i)
			}
		}
		op := map[string]string{"cat": "re.++", "union": "re.union", "inter": "re.inter"}[x.Name]
		if len(parts) == 1 {
			return cval{t: parts[0], ghost: "reglan"}
		}
		return cval{t: mk(op, SRegLan, parts...), ghost: "reglan"}
	case "comp":
		return cval{t: mk("re.comp", SRegLan, arg(0).t), ghost: "reglan"}
	case "star":
		return cval{t: mk("re.*", SRegLan, arg(0).t), ghost: "reglan"}
	case "rlen":
		lo, ok1 := intVal(arg(0).t)
		hi, ok2 := intVal(arg(1).t)
		if !ok1 || !ok2 {
			cfail("rlen: constant bounds expected")
		}
		if hi < 0 {
			return cval{t: mk("re.++", SRegLan, mk(fmt.Sprintf("(_ re.loop %d %d)", lo, lo), SRegLan, reAllChar), reAll), ghost: "reglan"}
		}
		return cval{t: mk(fmt.Sprintf("(_ re.loop %d %d)", lo, hi), SRegLan, reAllChar), ghost: "reglan"}
	case "charAt":
		// charAt(s, i): code point of the i-th character (-1 when out of range)
		return cval{t: mk("str.to_code", SInt, mk("str.at", SString, arg(0).t, arg(1).t)), ty: intT}
	case "repeat":
		a := x.Args[0]
		n, ok := intVal(arg(1).t)
		if a.Kind != "str" || !ok || n < 0 || n > 100000 {
			cfail("repeat: expected a string literal and a constant count")
		}
		return cval{t: StrLit(strings.Repeat(a.Str, int(n))), ty: strT}
	case "inre":
		return cval{t: mk("str.in_re", SBool, arg(0).t, arg(1).t), ty: boolT}
	case "toLower", "toUpper", "enumName", "errmsg", "fmtv", "replaceAll", "split0", "queryUnescapeOK", "queryUnescape":
		return env.uninterpretedStringFn(x)
	case "$visited", "visited":
		cfail("use $visited as an identifier")
	}
	// spec functions
	if sf := e.P.lookupSpec(env.pkg, x.Name); sf != nil {
		var args []cval
		for i := range x.Args {
			args = append(args, arg(i))
		}
		return e.applySpec(sf, args, env)
	}
	// real Go functions of the package (small, loop-free, pure): executed symbolically
	if env.pkg != nil {
		if sp := e.P.Prog.Package(env.pkg); sp != nil {
			if fn := sp.Func(x.Name); fn != nil && e.canInline(fn) {
				for n := range e.P.FuncModset(fn) {
					if n != "next" && !strings.HasPrefix(n, "alloc:") {
						cfail("function %s used in a contract is not pure (writes %s)", x.Name, n)
					}
				}
				var args []Val
				for i := range x.Args {
					args = append(args, arg(i).t)
				}
				save, saveReach := e.curState, e.curReach
				e.curState = env.st.Clone()
				if e.curReach == nil {
					e.curReach = True
				}
				ret := e.inlineCall(fn, nil, args)
				e.curState, e.curReach = save, saveReach
				if t, ok := ret.(*Term); ok {
					return cval{t: t, ty: fn.Signature.Results().At(0).Type()}
				}
				cfail("function %s does not return a single value", x.Name)
			}
		}
	}
	cfail("unknown function %s", x.Name)
	return cval{}
}

// langOf: lang(F) for a real unary string predicate F of the package whose body is a boolean combination of
// regexp matches on its argument: the regular language { s | F(s) }.
func (env *Env) langOf(x *CExpr) cval {
	e := env.e
	if len(x.Args) != 1 || x.Args[0].Kind != "ident" {
		cfail("lang: expected a function name")
	}
	sp := e.P.Prog.Package(env.pkg)
	fn := sp.Func(x.Args[0].Name)
	if fn == nil || !e.canInline(fn) {
		cfail("lang: %s is not a small loop-free function of the package", x.Args[0].Name)
	}
	ph := Const("lang$placeholder", SString)
	save, saveReach := e.curState, e.curReach
	if e.curState == nil {
		e.curState = env.st
	}
	e.curState = e.curState.Clone()
	if e.curReach == nil {
		e.curReach = True
	}
	ret := e.inlineCall(fn, nil, []Val{ph})
	e.curState, e.curReach = save, saveReach
	t, ok := ret.(*Term)
	if !ok || t.Sort != SBool {
		cfail("lang: %s does not return bool", fn.Name())
	}
	var conv func(t *Term) *Term
	conv = func(t *Term) *Term {
		switch {
		case t == True:
			return reAll
		case t == False:
			return reNone
		case t.Op == "str.in_re" && t.Args[0] == ph:
			return t.Args[1]
		case t.Op == "and":
			var ps []*Term
			for _, a := range t.Args {
				ps = append(ps, conv(a))
			}
			return mk("re.inter", SRegLan, ps...)
		case t.Op == "or":
			var ps []*Term
			for _, a := range t.Args {
				ps = append(ps, conv(a))
			}
			return mk("re.union", SRegLan, ps...)
		case t.Op == "not":
			return mk("re.comp", SRegLan, conv(t.Args[0]))
		case t.Op == "ite" && t.Sort == SBool:
			c, a, b := conv(t.Args[0]), conv(t.Args[1]), conv(t.Args[2])
			return mk("re.union", SRegLan, mk("re.inter", SRegLan, c, a), mk("re.inter", SRegLan, mk("re.comp", SRegLan, c), b))
		}
		cfail("lang: body of %s is not a boolean combination of regexp matches on its argument: %s", fn.Name(), t)
		return nil
	}
	return cval{t: conv(t), ghost: "reglan"}
}

func (env *Env) uninterpretedStringFn(x *CExpr) cval {
	var args []*Term
	var sorts []Sort
	for _, a := range x.Args {
		v := env.eval(a)
		args = append(args, v.t)
		sorts = append(sorts, v.t.Sort)
	}
	name, ret := strModelFn(x.Name)
	fn := DeclFun(name, sorts, ret)
	ty := types.Type(types.Typ[types.String])
	if ret == SBool {
		ty = types.Typ[types.Bool]
	}
	return cval{t: App(fn, ret, args...), ty: ty}
}

// evalMethod: x.M(args) where M is a Go method (pure getter) executed symbolically in the environment state.
func (env *Env) evalMethod(x *CExpr) cval {
	e := env.e
	recv := env.eval(x.Args[0])
	if recv.ty == nil {
		cfail("method %s on untyped value", x.Name)
	}
	rt := recv.ty
	if recv.isRef {
		rt = types.NewPointer(recv.ty)
	}
	ms := e.P.Prog.MethodSets.MethodSet(rt)
	var sel *types.Selection
	for i := 0; i < ms.Len(); i++ {
		if ms.At(i).Obj().Name() == x.Name {
			sel = ms.At(i)
		}
	}
	if sel == nil {
		cfail("no method %s on %s", x.Name, rt)
	}
	fn := e.P.Prog.MethodValue(sel)
	args := []Val{recv.t}
	for _, a := range x.Args[1:] {
		args = append(args, env.eval(a).t)
	}
	// ANTLR contexts, tokens, parsers: pure uninterpreted functions of the receiver (same symbols as in the code)
	isAntlr := false
	if named, ok := derefNamed(rt); ok && named.Obj().Pkg() != nil && isAntlrPkg(named.Obj().Pkg().Path()) {
		isAntlr = true
	}
	if isAntlr && (fn == nil || len(fn.Blocks) == 0 || antlrStatic(fn)) {
		r := recv.t
		if r.Sort == SIface {
			r = IVal(r)
		}
		var as []*Term
		for _, a := range args[1:] {
			as = append(as, a.(*Term))
		}
		sig := sel.Type().(*types.Signature)
		if sig.Results().Len() != 1 {
			cfail("method %s does not return a single value", x.Name)
		}
		v := e.antlrResult(x.Name, r, as, sig.Results())
		return cval{t: v.(*Term), ty: sig.Results().At(0).Type()}
	}
	if fn == nil || len(fn.Blocks) == 0 {
		cfail("method %s has no body", x.Name)
	}
	if !e.canInline(fn) {
		cfail("method %s is not a small loop-free function", x.Name)
	}
	save, saveReach := e.curState, e.curReach
	e.curState = env.st.Clone()
	if e.curReach == nil {
		e.curReach = True
	}
	ret := e.inlineCall(fn, nil, args)
	e.curState, e.curReach = save, saveReach
	t, ok := ret.(*Term)
	if !ok {
		cfail("method %s does not return a single value", x.Name)
	}
	return cval{t: t, ty: fn.Signature.Results().At(0).Type()}
}

// ---------- environments ----------

func (e *Exec) entryEnv() *Env {
	names := map[string]cval{}
	for n, v := range e.params {
		if t, ok := v.(*Term); ok {
			names[n] = cval{t: t, ty: e.paramTy[n]}
		}
	}
	return &Env{e: e, st: e.entry, old: e.entry, names: names, oldNames: names, pkg: e.Fn.Pkg.Pkg}
}

func (e *Exec) exitEnv() *Env {
	env := e.entryEnv()
	names := map[string]cval{}
	for k, v := range env.names {
		names[k] = v
	}
	var ret Val
	switch len(e.results) {
	case 0:
	case 1:
		ret = e.results[0]
	default:
		ret = Tuple(e.results)
	}
	if ret != nil {
		// convert non-term results where possible
		switch r := ret.(type) {
		case Tuple:
			for i := range r {
				if _, ok := r[i].(*Term); !ok && r[i] != nil {
					r[i] = e.toTerm(r[i], e.Fn.Signature.Results().At(i).Type())
				}
			}
		case *Term:
		default:
			ret = e.toTerm(ret, e.Fn.Signature.Results().At(0).Type())
		}
		bindResults(names, e.Fn, ret)
	}
	// ghost: number of NotifyErrorListeners calls made by this function
	errs := e.errsGhost
	if errs == nil {
		errs = IntLit(0)
	}
	names["$errs"] = cval{t: errs, ty: types.Typ[types.Int]}
	if e.errTok != nil {
		// token handed to the last NotifyErrorListeners call; its Go type is antlr.Token (an interface)
		var tokTy types.Type
		for path, tp := range e.P.TPkgs {
			if strings.HasSuffix(path, "antlr4-go/antlr/v4") {
				if o := tp.Types.Scope().Lookup("Token"); o != nil {
					tokTy = o.Type()
				}
			}
		}
		names["$errtok"] = cval{t: e.errTok, ty: tokTy}
	}
	return &Env{e: e, st: e.exit, old: e.entry, names: names, oldNames: env.names, pkg: e.Fn.Pkg.Pkg}
}

// loopEnv resolves names at a loop header: phis by source name, other locals through debug info.
func (e *Exec) loopEnv(li *loopInfo, phiVals map[ssa.Value]Val, st *State, iters map[ssa.Value]*Term, atEntry bool) *Env {
	base := e.root().entryEnv()
	if e.inlineOf != nil {
		base = &Env{e: e, st: e.entry, old: e.entry, names: map[string]cval{}, pkg: e.Fn.Pkg.Pkg}
	}
	env := &Env{e: e, st: st, old: base.old, pre: li.entryState, names: base.names, oldNames: base.names, pkg: e.Fn.Pkg.Pkg}
	lookupIn := func(name string, vals map[ssa.Value]Val, state *State, its map[ssa.Value]*Term) (cval, bool) {
		switch name {
		case "$i":
			// number of completed iterations of a range-over-slice loop: phi index + 1
			for _, in := range li.header.Instrs {
				phi, ok := in.(*ssa.Phi)
				if !ok {
					break
				}
				if c, ok := phi.Edges[0].(*ssa.Const); ok && c.Value != nil && c.Value.ExactString() == "-1" {
					if t, ok := vals[phi].(*Term); ok {
						return cval{t: Add(t, IntLit(1)), ty: types.Typ[types.Int]}, true
					}
				}
			}
			return cval{}, false
		case "$s":
			// the slice a `for .. range slice` loop iterates over (the SSA operand, also when it is an anonymous call
			// result): the header compares the index with len($s)
			for _, in := range li.header.Instrs {
				if b, ok := in.(*ssa.BinOp); ok && b.Op.String() == "<" {
					if c, ok := b.Y.(*ssa.Call); ok {
						if bi, ok := c.Call.Value.(*ssa.Builtin); ok && bi.Name() == "len" && len(c.Call.Args) == 1 {
							if v, ok := e.vals[c.Call.Args[0]]; ok {
								if t, ok := v.(*Term); ok {
									return cval{t: t, ty: c.Call.Args[0].Type()}, true
								}
							}
						}
					}
				}
			}
			return cval{}, false
		case "$visited":
			var rs []ssa.Value
			for r := range its {
				rs = append(rs, r)
			}
			if len(rs) == 0 {
				return cval{}, false
			}
			sort.Slice(rs, func(i, j int) bool { return rs[i].Pos() < rs[j].Pos() })
			return cval{t: its[rs[0]], ghost: "set"}, true
		}
		// $i_<ord> / $visited_<ord>: ghosts of an enclosing loop (ordinal with dots written as underscores)
		if strings.HasPrefix(name, "$i_") || strings.HasPrefix(name, "$visited_") {
			isIdx := strings.HasPrefix(name, "$i_")
			ord := strings.ReplaceAll(strings.TrimPrefix(strings.TrimPrefix(name, "$i_"), "$visited_"), "_", ".")
			for _, other := range e.loops {
				if other.ord != ord {
					continue
				}
				if isIdx {
					for _, in := range other.header.Instrs {
						phi, ok := in.(*ssa.Phi)
						if !ok {
							break
						}
						if c, ok := phi.Edges[0].(*ssa.Const); ok && c.Value != nil && c.Value.ExactString() == "-1" {
							var v Val
							if other == li {
								v = vals[phi]
							} else {
								v = e.vals[phi]
							}
							if t, ok := v.(*Term); ok {
								return cval{t: Add(t, IntLit(1)), ty: types.Typ[types.Int]}, true
							}
						}
					}
				} else {
					for rng := range other.iterHdr {
						if other == li {
							if t, ok := its[rng]; ok {
								return cval{t: t, ghost: "set"}, true
							}
						}
						if it := e.iters[rng]; it != nil {
							return cval{t: it.visited, ghost: "set"}, true
						}
					}
				}
			}
			return cval{}, false
		}
		// phi with that source name
		for _, in := range li.header.Instrs {
			phi, ok := in.(*ssa.Phi)
			if !ok {
				break
			}
			if phi.Comment == name {
				if v, ok := vals[phi]; ok {
					return cval{t: e.toTerm(v, phi.Type()), ty: phi.Type()}, true
				}
			}
		}
		return e.localByName(name, li.header, state)
	}
	env.lookup = func(name string, which int) (cval, bool) {
		switch which {
		case 2:
			return lookupIn(name, li.entryVals, li.entryState, li.iterEntry)
		case 1:
			return cval{}, false
		}
		return lookupIn(name, phiVals, st, iters)
	}
	return env
}

// localByName finds the value of a source-level local variable visible at block `at`.
func (e *Exec) localByName(name string, at *ssa.BasicBlock, st *State) (cval, bool) {
	// Candidates: (a) header phis with that source name in blocks strictly dominating `at` (a variable assigned in an
	// earlier loop), (b) every SSA value a debug reference of the name points to whose DEFINITION dominates `at` (SSA
	// values are immutable, where the reference itself sits is irrelevant). Constants (the `nil`/zero initial value
	// go/ssa records at a declaration) only count when nothing else exists. Of several values the reaching one is the
	// one whose definition is dominated by all the others; otherwise the name is ambiguous and not resolved.
	type cand struct {
		v      ssa.Value
		isAddr bool
		block  *ssa.BasicBlock
	}
	var cands []cand
	add := func(v ssa.Value, isAddr bool, b *ssa.BasicBlock) {
		for _, c := range cands {
			if c.v == v {
				return
			}
		}
		cands = append(cands, cand{v, isAddr, b})
	}
	entry := e.Fn.Blocks[0]
	for _, b := range e.Fn.Blocks {
		if b == at || !b.Dominates(at) {
			continue
		}
		for _, in := range b.Instrs {
			phi, ok := in.(*ssa.Phi)
			if !ok {
				break
			}
			if phi.Comment == name {
				if _, have := e.vals[phi]; have {
					add(phi, false, b)
				}
			}
		}
	}
	var constCand *cand
	for i := range e.debugVals[name] {
		r := &e.debugVals[name][i]
		switch v := r.v.(type) {
		case *ssa.Const:
			if constCand == nil {
				constCand = &cand{v, false, entry}
			}
		case *ssa.Parameter, *ssa.FreeVar:
			add(r.v, r.isAddr, entry)
		case ssa.Instruction:
			db := v.Block()
			if db == nil || db == at || !db.Dominates(at) {
				continue
			}
			if _, have := e.vals[r.v]; !have {
				continue
			}
			add(r.v, r.isAddr, db)
		}
	}
	if len(cands) == 0 && constCand != nil {
		cands = append(cands, *constCand)
	}
	if len(cands) == 0 {
		return cval{}, false
	}
	best := cands[0]
	for _, c := range cands[1:] {
		if best.block.Dominates(c.block) && best.block != c.block {
			best = c
		} else if c.block == best.block {
			// same block: the later instruction wins
			if bi, ok := best.v.(ssa.Instruction); ok {
				if ci, ok := c.v.(ssa.Instruction); ok {
					for _, in := range c.block.Instrs {
						if in == bi {
							best = c
							break
						}
						if in == ci {
							break
						}
					}
				}
			}
		}
	}
	for _, c := range cands {
		if c.v != best.v && !(c.block.Dominates(best.block)) {
			return cval{}, false // ambiguous: definitions on incomparable paths
		}
	}
	v := e.val(best.v)
	if best.isAddr {
		l := e.locOf(v, best.v.Type())
		lv := e.loadIn(l, st)
		t, ok := lv.(*Term)
		if !ok {
			return cval{}, false
		}
		return cval{t: t, ty: l.Type}, true
	}
	t, ok := v.(*Term)
	if !ok {
		if l, isLoc := v.(*Loc); isLoc {
			return cval{t: e.locToRef(l), ty: best.v.Type()}, true
		}
		return cval{}, false
	}
	return cval{t: t, ty: best.v.Type()}, true
}

// ---------- spec functions ----------

func (p *Program) lookupSpec(pkg *types.Package, name string) *SpecFun {
	if pkg != nil {
		if sf, ok := p.Specs[pkg.Name()+"."+name]; ok {
			return sf
		}
	}
	return p.Specs[name]
}

type specDef struct {
	sf     *SpecFun
	reads  []string // heap components (sorted)
	params []*Term
	ptypes []cval
	ret    Sort
	retTy  types.Type
	ghost  string
	smt    string
	done   bool
}

type specKey struct {
	sf     *SpecFun
	opaque bool
}

var specDefs = map[specKey]*specDef{}

// specUnfoldDepth: rounds of unfolding of recursive specification functions at ground applications.
var specUnfoldDepth = 3

func (e *Exec) specPkg(sf *SpecFun) *types.Package {
	for path, tp := range e.P.TPkgs {
		if strings.HasPrefix(path, repoModule) && tp.Name == sf.Pkg {
			return tp.Types
		}
	}
	return nil
}

// defineSpec translates a spec function into a (recursive) SMT definition; heap components it reads become
// leading parameters. Fixpoint over the read sets of mutually recursive definitions.
func (e *Exec) defineSpec(sf *SpecFun) *specDef {
	sfKey := specKey{sf, opaqueStrings}
	if d, ok := specDefs[sfKey]; ok {
		return d
	}
	pkg := e.specPkg(sf)
	env0 := &Env{e: e, pkg: pkg, names: map[string]cval{}}
	d := &specDef{sf: sf, smt: "spec_" + sf.Pkg + "_" + sf.Name}
	if opaqueStrings {
		d.smt += "_o"
	}
	specDefs[sfKey] = d
	for _, p := range sf.Params {
		ty, srt, ghost := env0.resolveTypeOrGhost(p.Type)
		bv := TS.intern(&Term{Name: smtName("sp_" + sf.Name + "_" + p.Name), Sort: srt, flags: flagHasBound})
		bv.flags |= flagHasBound
		d.params = append(d.params, bv)
		d.ptypes = append(d.ptypes, cval{t: bv, ty: ty, ghost: ghost})
	}
	rty, rsrt, rghost := env0.resolveTypeOrGhost(sf.Ret)
	d.ret, d.retTy, d.ghost = rsrt, rty, rghost
	if sf.Opaque {
		var ss []Sort
		for _, p := range d.params {
			ss = append(ss, p.Sort)
		}
		DeclFun(d.smt, ss, d.ret)
		d.done = true
		return d
	}
	for iter := 0; iter < 6; iter++ {
		ps := newParamState()
		env := &Env{e: e, pkg: pkg, names: map[string]cval{}, st: ps.st, old: ps.st}
		for i, p := range sf.Params {
			env.names[p.Name] = d.ptypes[i]
		}
		before := strings.Join(d.reads, ",")
		body := env.eval(sf.Body)
		if body.t.Sort != d.ret {
			cfail("spec %s: body has sort %s, declared %s", sf.Name, body.t.Sort, d.ret)
		}
		reads := ps.reads()
		// union with previous (monotone)
		set := map[string]bool{}
		for _, r := range d.reads {
			set[r] = true
		}
		for _, r := range reads {
			set[r] = true
		}
		d.reads = d.reads[:0]
		for r := range set {
			d.reads = append(d.reads, r)
		}
		sort.Strings(d.reads)
		var params []*Term
		for _, r := range d.reads {
			params = append(params, paramLeaf(r))
		}
		params = append(params, d.params...)
		// defining equation, unfolded at ground applications (two levels) instead of define-fun-rec
		var ss []Sort
		for _, p := range params {
			ss = append(ss, p.Sort)
		}
		delete(TS.decls, smtName(d.smt))
		DeclFun(d.smt, ss, d.ret)
		app := App(d.smt, d.ret, params...)
		SetInstAxiom(d.smt, params, app, Eq(app, body.t), specUnfoldDepth)
		if strings.Join(d.reads, ",") == before && iter > 0 {
			break
		}
	}
	d.done = true
	return d
}

func paramLeaf(comp string) *Term {
	t := TS.intern(&Term{Name: smtName("hp$" + comp), Sort: allSorts.m()[comp], flags: flagHasBound})
	t.flags |= flagHasBound
	return t
}

type paramState struct{ st *State }

func newParamState() *paramState {
	epochCounter++
	st := &State{comps: map[string]*Term{}, sorts: map[string]Sort{}, epoch: -epochCounter, paramMode: true, paramReads: map[string]bool{}}
	st.next = TS.intern(&Term{Name: "hp$next", Sort: SInt, flags: flagHasBound})
	return &paramState{st: st}
}

func (ps *paramState) reads() []string {
	var out []string
	for k := range ps.st.paramReads {
		out = append(out, k)
	}
	sort.Strings(out)
	return out
}

// specIsRecursive: the spec function can reach itself through spec-function calls.
func (p *Program) specIsRecursive(sf *SpecFun) bool {
	if sf.Opaque || sf.Body == nil {
		return false
	}
	seen := map[*SpecFun]bool{}
	var visit func(x *CExpr, pkg string) bool
	var reach func(g *SpecFun) bool
	reach = func(g *SpecFun) bool {
		if g == sf {
			return true
		}
		if seen[g] || g.Body == nil {
			return false
		}
		seen[g] = true
		return visit(g.Body, g.Pkg)
	}
	visit = func(x *CExpr, pkg string) bool {
		if x == nil {
			return false
		}
		if x.Kind == "call" {
			g := p.Specs[pkg+"."+x.Name]
			if g == nil {
				g = p.Specs[x.Name]
			}
			if g != nil && reach(g) {
				return true
			}
		}
		for _, a := range x.Args {
			if visit(a, pkg) {
				return true
			}
		}
		return false
	}
	return visit(sf.Body, sf.Pkg)
}

func (e *Exec) applySpec(sf *SpecFun, args []cval, env *Env) cval {
	if !sf.Opaque && !e.P.specIsRecursive(sf) {
		// non-recursive: expand in place
		if len(args) != len(sf.Params) {
			cfail("spec %s: expected %d arguments, got %d", sf.Name, len(sf.Params), len(args))
		}
		pkg := e.specPkg(sf)
		inner := &Env{e: e, st: env.st, old: env.old, pre: env.pre, names: map[string]cval{}, pkg: pkg}
		for i, p := range sf.Params {
			a := args[i]
			ty, srt, ghost := inner.resolveTypeOrGhost(p.Type)
			if a.isNil {
				a = cval{t: zeroOfSort(srt), ty: ty, ghost: ghost}
			}
			if a.t.Sort != srt && a.t.Sort.Base() != srt.Base() {
				cfail("spec %s: argument %d has sort %s, expected %s", sf.Name, i, a.t.Sort, srt)
			}
			a.ty, a.ghost = ty, ghost
			inner.names[p.Name] = a
		}
		return inner.eval(sf.Body)
	}
	d := e.defineSpec(sf)
	if len(args) != len(d.params) {
		cfail("spec %s: expected %d arguments, got %d", sf.Name, len(d.params), len(args))
	}
	var ts []*Term
	if env.st == nil {
		cfail("spec %s applied without a state", sf.Name)
	}
	for _, r := range d.reads {
		ts = append(ts, env.st.Get(r, allSorts.m()[r]))
	}
	for i, a := range args {
		t := a.t
		if a.isNil {
			t = zeroOfSort(d.params[i].Sort)
		}
		if t.Sort != d.params[i].Sort && t.Sort.Base() != d.params[i].Sort.Base() {
			cfail("spec %s: argument %d has sort %s, expected %s", sf.Name, i, t.Sort, d.params[i].Sort)
		}
		ts = append(ts, t)
	}
	return cval{t: App(d.smt, d.ret, ts...), ty: d.retTy, ghost: d.ghost}
}

// MapGet is the guarded map lookup ite(ok && dom[key], val[key], zero) as an uninterpreted function with an instantiation
// axiom (pattern: the application itself).
func MapGet(ok, dom, val, key *Term, ks, vs Sort) *Term {
	name := "mget_" + sortTag(ks) + "_" + sortTag(vs)
	fn := DeclFun(name, []Sort{SBool, dom.Sort, val.Sort, ks}, vs)
	if _, done := TS.axioms[fn]; !done {
		o, d, v, k := BoundVar("o", SBool), BoundVar("d", dom.Sort), BoundVar("v", val.Sort), BoundVar("k", ks)
		AddInstAxiom(fn, []*Term{o, d, v, k}, App(fn, vs, o, d, v, k), Eq(App(fn, vs, o, d, v, k), Ite(And(o, Select(d, k)), Select(v, k), zeroOfSort(vs))))
	}
	return App(fn, vs, ok, dom, val, key)
}
