package main

// Loop cutting: invariants checked on entry and on every back edge; loop-modified state havocked at the header.

import (
	"fmt"
	"go/types"
	"sort"
	"strings"

	"golang.org/x/tools/go/ssa"
)

func (e *Exec) loopSpec(li *loopInfo) *LoopSpec {
	c := e.root().C
	if e.inlineOf != nil {
		c = e.P.ContractOf(e.Fn)
	}
	if c == nil {
		return nil
	}
	return c.Loops[li.ord]
}

func (e *Exec) enterLoop(li *loopInfo, phiVals map[ssa.Value]Val, st *State) {
	li.entryState = st.Clone()
	li.entryVals = phiVals
	li.iterEntry = map[ssa.Value]*Term{}
	li.iterHdr = map[ssa.Value]*Term{}
	// iterators advanced inside this loop
	var its []*iterInfo
	for b := range li.blocks {
		for _, in := range b.Instrs {
			if n, ok := in.(*ssa.Next); ok {
				if it, ok := e.vals[n.Iter].(*iterInfo); ok {
					its = append(its, it)
				}
			}
		}
	}
	sort.Slice(its, func(i, j int) bool { return its[i].rng.Pos() < its[j].rng.Pos() })
	for _, it := range its {
		li.iterEntry[it.rng] = it.visited
	}
	spec := e.loopSpec(li)
	// 1. invariants hold on entry
	if spec != nil {
		env := e.loopEnv(li, phiVals, st, li.iterEntry, true)
		for i, inv := range spec.Invariants {
			if !clauseOn(inv) || !clauseEmit(inv) {
				continue
			}
			t := e.evalContractBool(inv.Expr, env, "invariant")
			e.oblige("inv-entry", "loop"+li.ord+":"+labelOr(inv.Label, i), t, e.propsOf(inv), inv.Src)
		}
	}
	// 2. havoc
	li.assumeStart = len(e.root().assumes)
	li.modset = e.loopModset(li)
	hst := st.Clone()
	if li.modset["*"] {
		hst = st.HavocAll()
		e.root().notes = append(e.root().notes, fmt.Sprintf("loop %s of %s havocs the whole heap (unknown callee inside)", li.ord, FuncKey(e.Fn)))
	} else {
		var names []string
		for n := range li.modset {
			if n != "next" && !strings.HasPrefix(n, "alloc:") {
				names = append(names, n)
			}
		}
		sort.Strings(names)
		for _, n := range names {
			if strings.HasPrefix(n, "G$") {
				continue
			}
			srt, ok := allSorts.get(n)
			if !ok {
				panic("loop havoc of unregistered component " + n)
			}
			nv := Fresh("lh$"+li.ord+"$"+n, srt)
			hst.Set(n, nv)
			if li.freshOnly[n] {
				// every write in the loop targets an object allocated by this activation: objects that existed at
				// function entry are untouched
				r := BoundVar("r", SInt)
				e.assume(Implies(e.guard(), Forall([]*Term{r}, Implies(Lt(RootOf(r), e.root().entry.next), Eq(Select(nv, r), Select(st.Get(n, srt), r))), []*Term{Select(nv, r)})))
			}
		}
		if li.modset["next"] {
			nn := Fresh("lnext$"+li.ord, SInt)
			e.assume(Implies(e.guard(), Ge(nn, st.next)))
			e.assumeClosedAlloc(li.modset, st.next, nn)
			hst.next = nn
		}
	}
	e.curState = hst
	li.hdrState = hst.Clone()
	li.hdrVals = map[ssa.Value]Val{}
	for phi, ev := range phiVals {
		p := phi.(*ssa.Phi)
		var hv Val
		if _, ok := ev.(*Term); ok {
			hv = Fresh("lp$"+li.ord+"$"+strings.ReplaceAll(p.Comment, " ", "_"), sortOf(p.Type()))
		} else if _, ok := ev.(*Loc); ok {
			unsupported("loop-carried address")
		} else {
			hv = ev // function values etc. assumed loop-invariant only if all edges agree; mergeVals already merged entry edges
			for _, bp := range li.backPreds {
				_ = bp
			}
		}
		li.hdrVals[phi] = hv
		e.vals[phi] = hv
		e.assumeWF(hv, p.Type(), hst)
	}
	for _, it := range its {
		it.visited = Fresh("lvis$"+li.ord, it.visited.Sort)
		li.iterHdr[it.rng] = it.visited
	}
	// 3. assume invariants
	e.autoInvariants(li)
	if spec != nil {
		env := e.loopEnv(li, li.hdrVals, hst, li.iterHdr, false)
		for _, inv := range spec.Invariants {
			if !clauseOn(inv) {
				continue
			}
			t := e.evalContractBool(inv.Expr, env, "invariant")
			e.assume(Implies(e.guard(), t))
		}
		if spec.Decreases != nil {
			li.variantHdr = e.evalContract(spec.Decreases.Expr, env, "loop variant").t
		}
		e.probe("loop" + li.ord)
	}
}

func labelOr(l string, i int) string {
	if l != "" {
		return l
	}
	return fmt.Sprintf("%d", i+1)
}

func (e *Exec) propsOf(c *Clause) []string {
	if len(c.Props) > 0 {
		return c.Props
	}
	if rc := e.root().C; rc != nil {
		return rc.Props
	}
	return nil
}

// autoInvariants adds facts that hold by construction of range loops.
func (e *Exec) autoInvariants(li *loopInfo) {
	h := li.header
	if strings.HasPrefix(h.Comment, "rangeindex.loop") {
		// phi index starts at -1 and is incremented in the header before the bound test: -1 <= idx < len
		for _, in := range h.Instrs {
			phi, ok := in.(*ssa.Phi)
			if !ok {
				break
			}
			if c, ok := phi.Edges[0].(*ssa.Const); ok && c.Value != nil && c.Value.ExactString() == "-1" {
				idx := e.term(phi)
				// find the length value: the header compares idx+1 < len
				for _, in2 := range h.Instrs {
					if b, ok := in2.(*ssa.BinOp); ok && b.Op.String() == "<" {
						if ln, ok := e.vals[b.Y]; ok {
							if lt, ok := ln.(*Term); ok {
								e.assume(Implies(e.guard(), And(Le(IntLit(-1), idx), Lt(idx, lt))))
							}
						}
					}
				}
			}
		}
	}
}

// checkInvariants is called for a back edge from `from` to the loop header under condition cond.
func (e *Exec) checkInvariants(li *loopInfo, from *ssa.BasicBlock, cond *Term) {
	spec := e.loopSpec(li)
	if spec == nil {
		return
	}
	saveReach, saveState := e.curReach, e.curState
	e.curReach = cond
	e.oblLoopFrom = li.assumeStart
	defer func() { e.oblLoopFrom = 0 }()
	vals := map[ssa.Value]Val{}
	for _, in := range li.header.Instrs {
		phi, ok := in.(*ssa.Phi)
		if !ok {
			break
		}
		for k, p := range li.header.Preds {
			if p == from {
				vals[phi] = e.val(phi.Edges[k])
			}
		}
	}
	iters := map[ssa.Value]*Term{}
	for rng := range li.iterHdr {
		iters[rng] = e.iters[rng].visited
	}
	env := e.loopEnv(li, vals, e.curState, iters, false)
	// the invariants are proved as a conjunction: clause k may use clauses 1..k-1 at the same program point
	var earlier []*Term
	for i, inv := range spec.Invariants {
		if !clauseOn(inv) {
			continue
		}
		t := e.evalContractBool(inv.Expr, env, "invariant")
		if !clauseEmit(inv) {
			// group pass: an invariant of the main pass is proved there; here it may be used at the same program point
			earlier = append(earlier, Implies(e.guard(), t))
			continue
		}
		before := len(e.root().obls)
		e.oblige("inv-preserved", "loop"+li.ord+":"+labelOr(inv.Label, i), t, e.propsOf(inv), inv.Src)
		r := e.root()
		if len(r.obls) > before {
			o := r.obls[len(r.obls)-1]
			o.Extra = append(o.Extra, earlier...)
			earlier = append(earlier, o.Goal)
		}
	}
	if spec.Decreases != nil && li.variantHdr != nil {
		// termination (C08 "never hangs"): on every back edge the variant was non-negative at the head and is smaller now
		back := e.evalContract(spec.Decreases.Expr, env, "loop variant").t
		e.oblige("decreases", "loop"+li.ord, And(Le(IntLit(0), li.variantHdr), Lt(back, li.variantHdr)), []string{"C08"}, spec.Decreases.Src)
	}
	e.curReach, e.curState = saveReach, saveState
}

// ---------- mod-sets ----------

// keyed by the string mode too: component names differ between native and opaque strings
type msKey struct {
	f *ssa.Function
	o bool
}

var modsetCache = map[msKey]map[string]bool{}
var modsetInProgress = map[*ssa.Function]bool{}

func (e *Exec) loopModset(li *loopInfo) map[string]bool {
	ms := map[string]bool{}
	fr := map[string]bool{}
	for b := range li.blocks {
		for _, in := range b.Instrs {
			e.P.instrModsetF(in, ms, fr)
		}
	}
	li.freshOnly = map[string]bool{}
	for n := range fr {
		if !ms[n] {
			li.freshOnly[n] = true
			ms[n] = true
		}
	}
	return ms
}

// FuncModset computes the heap components a function may write (transitively), "*" if unknown.
func (p *Program) FuncModset(fn *ssa.Function) map[string]bool {
	if ms, ok := modsetCache[msKey{fn, opaqueStrings}]; ok {
		return ms
	}
	if modsetInProgress[fn] {
		// recursion: the components of the function in progress are being collected by its own activation; the result
		// of every function between that activation and this point is incomplete and must not be cached
		modsetRecursionHits++
		return map[string]bool{}
	}
	modsetInProgress[fn] = true
	defer delete(modsetInProgress, fn)
	hits0 := modsetRecursionHits
	outermost := len(modsetInProgress) == 1
	ms := map[string]bool{}
	if c := p.ContractOf(fn); c != nil && c.Flags["pure"] {
		// writes nothing that existed; what it ALLOCATES (pseudo components alloc:<type>) is still collected from the body
		all := map[string]bool{}
		frDummy := map[string]bool{}
		for _, b := range fn.Blocks {
			for _, in := range b.Instrs {
				p.instrModsetF(in, all, frDummy)
			}
		}
		for n := range all {
			if strings.HasPrefix(n, "alloc:") {
				ms[n] = true
			}
		}
		if all["*"] {
			ms["alloc:*"] = true
		}
		if outermost || modsetRecursionHits == hits0 {
			modsetCache[msKey{fn, opaqueStrings}] = ms
		}
		return ms
	}
	if len(fn.Blocks) == 0 {
		ms["*"] = true
		modsetCache[msKey{fn, opaqueStrings}] = ms
		return ms
	}
	frDummy := map[string]bool{}
	for _, b := range fn.Blocks {
		for _, in := range b.Instrs {
			p.instrModsetF(in, ms, frDummy)
		}
	}
	for _, an := range fn.AnonFuncs {
		_ = an
	}
	if outermost || modsetRecursionHits == hits0 {
		// complete: either nothing below depended on a function still in progress, or this is the outermost activation
		// (a cycle through it contributes exactly what this activation collects)
		modsetCache[msKey{fn, opaqueStrings}] = ms
	}
	return ms
}

var modsetRecursionHits int

func addStructComps(t types.Type, ms map[string]bool) {
	st := t.Underlying().(*types.Struct)
	for i := 0; i < st.NumFields(); i++ {
		if isStruct(st.Field(i).Type()) {
			addStructComps(st.Field(i).Type(), ms)
		} else {
			ms[fieldComp(t, i)] = true
		}
	}
}

func (p *Program) instrModset(in ssa.Instruction, ms map[string]bool) {
	p.instrModsetF(in, ms, map[string]bool{})
}

// instrModsetF: ms collects components that may be written on pre-existing objects, fr those written only on objects
// this function activation allocated itself (a map created by make in the same function).
func (p *Program) instrModsetF(in ssa.Instruction, ms, fr map[string]bool) {
	switch x := in.(type) {
	case *ssa.Store:
		p.addrModset(x.Addr, ms)
	case *ssa.MapUpdate:
		k, v := mapSorts(x.Map.Type())
		tgt := ms
		if _, ok := x.Map.(*ssa.MakeMap); ok {
			tgt = fr
		}
		tgt[mapDomComp(k, v)] = true
		tgt[mapValComp(k, v)] = true
	case *ssa.Alloc, *ssa.MakeMap, *ssa.MakeSlice, *ssa.MakeInterface:
		ms["next"] = true
		if a, ok := x.(*ssa.Alloc); ok {
			// which struct types the function allocates (pseudo component, used by the closed_alloc flag)
			if pt, ok := a.Type().Underlying().(*types.Pointer); ok {
				if _, ok := pt.Elem().Underlying().(*types.Struct); ok {
					ms["alloc:"+typeKey(pt.Elem())] = true
				}
			}
		}
	case *ssa.Call:
		if b, ok := x.Call.Value.(*ssa.Builtin); ok && b.Name() == "delete" {
			if _, ok := x.Call.Args[0].(*ssa.MakeMap); ok {
				k, v := mapSorts(x.Call.Args[0].Type())
				fr[mapDomComp(k, v)] = true
				return
			}
		}
		p.callModset(&x.Call, ms)
	case *ssa.Go, *ssa.Defer, *ssa.Send, *ssa.Select:
		ms["*"] = true
	}
}

// addrIsFresh: the address points into an object allocated by this very function activation (writes to it are
// invisible to the caller's view of pre-existing objects).
func addrIsFresh(addr ssa.Value, depth int) bool {
	if depth > 6 {
		return false
	}
	switch a := addr.(type) {
	case *ssa.Alloc, *ssa.MakeSlice:
		return true
	case *ssa.FieldAddr:
		return addrIsFresh(a.X, depth+1)
	case *ssa.IndexAddr:
		return addrIsFresh(a.X, depth+1)
	case *ssa.Slice:
		return addrIsFresh(a.X, depth+1)
	}
	return false
}

// sliceIsFresh: the slice value was built by this function activation from a literal / make / append chain on such a
// slice (no loop-carried value): appending to it cannot write into a pre-existing backing array.
func sliceIsFresh(v ssa.Value, depth int) bool {
	if depth > 8 {
		return false
	}
	switch x := v.(type) {
	case *ssa.MakeSlice:
		return true
	case *ssa.Slice:
		if _, ok := x.X.(*ssa.Alloc); ok {
			return true
		}
	case *ssa.Call:
		if b, ok := x.Call.Value.(*ssa.Builtin); ok && b.Name() == "append" {
			return sliceIsFresh(x.Call.Args[0], depth+1)
		}
	}
	return false
}

// candidatesBySignature: the functions a call through a function value can reach when the function type mentions an
// unexported named type of a repository package (only that package can create such values): every function or
// closure of the package with an identical signature.
func (p *Program) candidatesBySignature(sig *types.Signature) []*ssa.Function {
	var pkg *types.Package
	tup := sig.Params()
	for i := 0; i < tup.Len(); i++ {
		t := tup.At(i).Type()
		if ptr, ok := t.(*types.Pointer); ok {
			t = ptr.Elem()
		}
		if n, ok := t.(*types.Named); ok && n.Obj().Pkg() != nil && !n.Obj().Exported() && strings.HasPrefix(n.Obj().Pkg().Path(), repoModule) {
			pkg = n.Obj().Pkg()
		}
	}
	if pkg == nil {
		return nil
	}
	sp := p.Prog.Package(pkg)
	if sp == nil {
		return nil
	}
	var out []*ssa.Function
	var visit func(f *ssa.Function)
	visit = func(f *ssa.Function) {
		if f.Signature.Recv() == nil && types.Identical(stripRecv(f.Signature), sig) && len(f.Blocks) > 0 {
			out = append(out, f)
		}
		for _, an := range f.AnonFuncs {
			visit(an)
		}
	}
	for _, m := range sp.Members {
		if f, ok := m.(*ssa.Function); ok {
			visit(f)
		}
	}
	return out
}

func stripRecv(sig *types.Signature) *types.Signature {
	return types.NewSignatureType(nil, nil, nil, sig.Params(), sig.Results(), sig.Variadic())
}

func (p *Program) addrModset(addr ssa.Value, ms map[string]bool) {
	if addrIsFresh(addr, 0) {
		return
	}
	elem := addr.Type().Underlying().(*types.Pointer).Elem()
	switch a := addr.(type) {
	case *ssa.FieldAddr:
		// writing field of struct: could be a heap field, or a field inside a by-value element/cell
		base := a.X
		st := base.Type().Underlying().(*types.Pointer).Elem()
		switch b := base.(type) {
		case *ssa.IndexAddr:
			p.addrModset(b, ms)
			return
		case *ssa.FieldAddr:
			_ = b
		}
		if isStruct(elem) {
			addStructComps(elem, ms)
		} else {
			ms[fieldComp(st, a.Field)] = true
		}
	case *ssa.IndexAddr:
		var et types.Type
		switch t := a.X.Type().Underlying().(type) {
		case *types.Slice:
			et = t.Elem()
		case *types.Pointer:
			et = t.Elem().Underlying().(*types.Array).Elem()
		}
		ms[elemComp(sortOf(et))] = true
	case *ssa.Global:
		ms[globalComp(a.Pkg.Pkg.Name(), a.Name())] = true
	default:
		// pointer value: cell or whole struct
		if isStruct(elem) {
			addStructComps(elem, ms)
		} else if at, ok := elem.Underlying().(*types.Array); ok {
			ms[elemComp(sortOf(at.Elem()))] = true
		} else {
			ms[cellComp(sortOf(elem))] = true
		}
	}
}

func (p *Program) callModset(c *ssa.CallCommon, ms map[string]bool) {
	if c.IsInvoke() {
		if m := lookupInvokeModel(c); m != nil {
			for _, n := range m.Mods {
				ms[n] = true
			}
			return
		}
		ms["*"] = true
		return
	}
	switch f := c.Value.(type) {
	case *ssa.Builtin:
		switch f.Name() {
		case "append":
			et := c.Args[0].Type().Underlying().(*types.Slice).Elem()
			if !sliceIsFresh(c.Args[0], 0) {
				ms[elemComp(sortOf(et))] = true
			}
			ms["next"] = true
		case "copy":
			if st, ok := c.Args[0].Type().Underlying().(*types.Slice); ok {
				ms[elemComp(sortOf(st.Elem()))] = true
			}
		case "delete":
			k, v := mapSorts(c.Args[0].Type())
			ms[mapDomComp(k, v)] = true
		}
	case *ssa.Function:
		p.staticCallModset(f, c, ms)
	case *ssa.MakeClosure:
		p.staticCallModset(f.Fn.(*ssa.Function), c, ms)
	default:
		// call through a function value: resolve phi of functions
		if fs := possibleFuncs(c.Value, 0); fs != nil {
			for _, f := range fs {
				p.staticCallModset(f, c, ms)
			}
			return
		}
		if fs := p.candidatesBySignature(c.Signature()); len(fs) > 0 {
			for _, f := range fs {
				for n := range p.FuncModset(f) {
					ms[n] = true
				}
			}
			return
		}
		ms["*"] = true
	}
}

func possibleFuncs(v ssa.Value, depth int) []*ssa.Function {
	if depth > 4 {
		return nil
	}
	switch x := v.(type) {
	case *ssa.Function:
		return []*ssa.Function{x}
	case *ssa.MakeClosure:
		return []*ssa.Function{x.Fn.(*ssa.Function)}
	case *ssa.Phi:
		var out []*ssa.Function
		for _, ed := range x.Edges {
			fs := possibleFuncs(ed, depth+1)
			if fs == nil {
				return nil
			}
			out = append(out, fs...)
		}
		return out
	}
	return nil
}

func (p *Program) staticCallModset(f *ssa.Function, c *ssa.CallCommon, ms map[string]bool) {
	if m := lookupModel(f); m != nil {
		for _, n := range m.modsFor(c) {
			ms[n] = true
		}
		// closures passed to models are pure by requirement (checked when the model is applied)
		return
	}
	for n := range p.FuncModset(f) {
		ms[n] = true
	}
}
