package main

import (
	"fmt"
	"go/ast"
	"go/token"
	"go/types"
	"os"
	"path/filepath"
	"sort"
	"strings"

	"golang.org/x/tools/go/packages"
	"golang.org/x/tools/go/ssa"
	"golang.org/x/tools/go/ssa/ssautil"
)

const repoModule = "github.com/openfga/language/pkg/go"

type Program struct {
	RepoDir   string
	Fset      *token.FileSet
	Prog      *ssa.Program
	Pkgs      map[string]*ssa.Package      // by import path
	TPkgs     map[string]*packages.Package // by import path
	Contracts map[string]*FuncContract     // key: pkgname.FuncRelString
	Files     []*ContractFile
	Specs     map[string]*SpecFun // key: pkgname.name and bare name (if unique)
	Axioms    []*Axiom
	Lemmas    []*Axiom
	LoadErrs  []string
}

func LoadProgram(repoDir string) (*Program, error) {
	dir := filepath.Join(repoDir, "pkg", "go")
	cfg := &packages.Config{
		Mode:       packages.LoadAllSyntax,
		Dir:        dir,
		BuildFlags: []string{"-tags=verif"},
		Env:        append(os.Environ(), "GOFLAGS=-mod=mod", "GOPROXY=off", "GOSUMDB=off", "GOTOOLCHAIN=local"),
	}
	pkgs, err := packages.Load(cfg, "./...")
	if err != nil {
		return nil, err
	}
	p := &Program{RepoDir: repoDir, Pkgs: map[string]*ssa.Package{}, TPkgs: map[string]*packages.Package{},
		Contracts: map[string]*FuncContract{}, Specs: map[string]*SpecFun{}}
	for _, pk := range pkgs {
		for _, e := range pk.Errors {
			p.LoadErrs = append(p.LoadErrs, e.Error())
		}
	}
	if len(p.LoadErrs) > 0 {
		return p, fmt.Errorf("package load errors: %s", strings.Join(p.LoadErrs, "; "))
	}
	prog, _ := ssautil.AllPackages(pkgs, ssa.GlobalDebug|ssa.InstantiateGenerics)
	p.Prog = prog
	if len(pkgs) > 0 {
		p.Fset = pkgs[0].Fset
	}
	packages.Visit(pkgs, nil, func(pk *packages.Package) {
		p.TPkgs[pk.PkgPath] = pk
		if sp := prog.Package(pk.Types); sp != nil {
			p.Pkgs[pk.PkgPath] = sp
		}
	})
	// Build only what we need: repo packages + packages whose function bodies we inline.
	need := []string{}
	for path := range p.Pkgs {
		if strings.HasPrefix(path, repoModule) || path == "github.com/openfga/api/proto/openfga/v1" {
			need = append(need, path)
		}
	}
	sort.Strings(need)
	for _, path := range need {
		p.Pkgs[path].Build()
	}
	// contracts
	for _, pk := range pkgs {
		if !strings.HasPrefix(pk.PkgPath, repoModule) {
			continue
		}
		for _, f := range pk.GoFiles {
			base := filepath.Base(f)
			if !(strings.HasPrefix(base, "contracts") && strings.HasSuffix(base, "_verif.go")) {
				continue
			}
			cf, err := ParseContractFile(f, pk.Name)
			if err != nil {
				return p, err
			}
			p.Files = append(p.Files, cf)
			for _, fc := range cf.Funcs {
				p.Contracts[pk.Name+"."+fc.Name] = fc
			}
			for _, sf := range cf.Specs {
				p.Specs[pk.Name+"."+sf.Name] = sf
				if _, dup := p.Specs[sf.Name]; !dup {
					p.Specs[sf.Name] = sf
				}
			}
			p.Axioms = append(p.Axioms, cf.Axioms...)
			p.Lemmas = append(p.Lemmas, cf.Lemmas...)
		}
	}
	return p, nil
}

// FuncKey is the key under which a function's contract is stored: "<pkgname>.<RelString>".
func FuncKey(fn *ssa.Function) string {
	if fn.Pkg == nil {
		if fn.Origin() != nil && fn.Origin().Pkg != nil {
			return fn.Origin().Pkg.Pkg.Name() + "." + fn.RelString(fn.Origin().Pkg.Pkg)
		}
		return fn.String()
	}
	return fn.Pkg.Pkg.Name() + "." + fn.RelString(fn.Pkg.Pkg)
}

func (p *Program) ContractOf(fn *ssa.Function) *FuncContract {
	if fn == nil {
		return nil
	}
	return p.Contracts[FuncKey(fn)]
}

// FindFunc finds the SSA function for a contract key "<pkgname>.<RelString>".
func (p *Program) FindFunc(key string) *ssa.Function {
	for path, sp := range p.Pkgs {
		if !strings.HasPrefix(path, repoModule) {
			continue
		}
		if !strings.HasPrefix(key, sp.Pkg.Name()+".") {
			continue
		}
		rel := key[len(sp.Pkg.Name())+1:]
		for _, m := range sp.Members {
			switch m := m.(type) {
			case *ssa.Function:
				if f := matchFn(m, sp, rel); f != nil {
					return f
				}
			case *ssa.Type:
				for _, t := range []types.Type{m.Type(), types.NewPointer(m.Type())} {
					ms := p.Prog.MethodSets.MethodSet(t)
					for i := 0; i < ms.Len(); i++ {
						if f := p.Prog.MethodValue(ms.At(i)); f != nil {
							if g := matchFn(f, sp, rel); g != nil {
								return g
							}
						}
					}
				}
			}
		}
	}
	return nil
}

func matchFn(f *ssa.Function, sp *ssa.Package, rel string) *ssa.Function {
	if f.Pkg != sp {
		return nil
	}
	if f.RelString(sp.Pkg) == rel {
		return f
	}
	for _, an := range f.AnonFuncs {
		if g := matchFn(an, sp, rel); g != nil {
			return g
		}
	}
	return nil
}

// ---------- loop ordinals from the AST ----------

type astLoop struct {
	ord      string
	pos, end token.Pos
	node     ast.Node
}

func astLoops(fn *ssa.Function) []astLoop {
	syn := fn.Syntax()
	if syn == nil {
		return nil
	}
	var body *ast.BlockStmt
	switch n := syn.(type) {
	case *ast.FuncDecl:
		body = n.Body
	case *ast.FuncLit:
		body = n.Body
	}
	if body == nil {
		return nil
	}
	var out []astLoop
	var walk func(n ast.Node, prefix string, counter *int)
	walk = func(n ast.Node, prefix string, counter *int) {
		ast.Inspect(n, func(m ast.Node) bool {
			if m == nil || m == n {
				return true
			}
			switch l := m.(type) {
			case *ast.FuncLit:
				return false
			case *ast.ForStmt, *ast.RangeStmt:
				*counter++
				ord := fmt.Sprintf("%s%d", prefix, *counter)
				out = append(out, astLoop{ord: ord, pos: l.Pos(), end: l.End(), node: l})
				var inner int
				var b *ast.BlockStmt
				if f, ok := l.(*ast.ForStmt); ok {
					b = f.Body
				} else {
					b = l.(*ast.RangeStmt).Body
				}
				walk(b, ord+".", &inner)
				return false
			}
			return true
		})
	}
	var c int
	walk(body, "", &c)
	return out
}
