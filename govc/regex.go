package main

// RE2 (Go regexp/syntax) -> SMT-LIB RegLan. regexp.MatchString is an unanchored search, so the language of
// "strings that match" is  .* L .*  with ^/$ handled as anchors at the ends of the pattern.

import (
	"fmt"
	"regexp/syntax"
	"unicode"
)

var reAll = mk("re.all", SRegLan)
var reAllChar = mk("re.allchar", SRegLan)
var reNone = mk("re.none", SRegLan)

func reStr(s string) *Term { return mk("str.to_re", SRegLan, StrLit(s)) }

// RegexToSMT returns the RegLan of all strings s with regexp.MatchString(pat, s) == true.
func RegexToSMT(pat string) (*Term, error) {
	re, err := syntax.Parse(pat, syntax.Perl)
	if err != nil {
		return nil, err
	}
	// not simplified: Simplify() unrolls counted repetition, (_ re.loop a b) is kept instead
	// split leading ^ and trailing $ (only the simple, fully anchored / unanchored forms are supported)
	subs := []*syntax.Regexp{re}
	if re.Op == syntax.OpConcat {
		subs = re.Sub
	}
	begin, end := false, false
	if len(subs) > 0 && (subs[0].Op == syntax.OpBeginText || subs[0].Op == syntax.OpBeginLine && subs[0].Flags&syntax.OneLine != 0) {
		begin = true
		subs = subs[1:]
	}
	if len(subs) > 0 && (subs[len(subs)-1].Op == syntax.OpEndText) {
		end = true
		subs = subs[:len(subs)-1]
	}
	var parts []*Term
	for _, s := range subs {
		t, err := reToSMT(s)
		if err != nil {
			return nil, err
		}
		parts = append(parts, t)
	}
	body := reConcat(parts)
	if !begin {
		body = reConcat([]*Term{reAll, body})
	}
	if !end {
		body = reConcat([]*Term{body, reAll})
	}
	return body, nil
}

func reConcat(parts []*Term) *Term {
	switch len(parts) {
	case 0:
		return reStr("")
	case 1:
		return parts[0]
	}
	return mk("re.++", SRegLan, parts...)
}

func reToSMT(re *syntax.Regexp) (*Term, error) {
	switch re.Op {
	case syntax.OpNoMatch:
		return reNone, nil
	case syntax.OpEmptyMatch:
		return reStr(""), nil
	case syntax.OpLiteral:
		if re.Flags&syntax.FoldCase != 0 {
			return nil, fmt.Errorf("case-insensitive literals unsupported")
		}
		return reStr(string(re.Rune)), nil
	case syntax.OpCharClass:
		return runeClass(re.Rune), nil
	case syntax.OpAnyCharNotNL:
		return mk("re.diff", SRegLan, reAllChar, reStr("\n")), nil
	case syntax.OpAnyChar:
		return reAllChar, nil
	case syntax.OpCapture:
		return reToSMT(re.Sub[0])
	case syntax.OpStar, syntax.OpPlus, syntax.OpQuest:
		s, err := reToSMT(re.Sub[0])
		if err != nil {
			return nil, err
		}
		switch re.Op {
		case syntax.OpStar:
			return mk("re.*", SRegLan, s), nil
		case syntax.OpPlus:
			return mk("re.+", SRegLan, s), nil
		}
		return mk("re.opt", SRegLan, s), nil
	case syntax.OpRepeat:
		s, err := reToSMT(re.Sub[0])
		if err != nil {
			return nil, err
		}
		if re.Max < 0 {
			return mk("re.++", SRegLan, mk(fmt.Sprintf("(_ re.loop %d %d)", re.Min, re.Min), SRegLan, s), mk("re.*", SRegLan, s)), nil
		}
		return mk(fmt.Sprintf("(_ re.loop %d %d)", re.Min, re.Max), SRegLan, s), nil
	case syntax.OpConcat:
		var parts []*Term
		for _, sub := range re.Sub {
			t, err := reToSMT(sub)
			if err != nil {
				return nil, err
			}
			parts = append(parts, t)
		}
		return reConcat(parts), nil
	case syntax.OpAlternate:
		var parts []*Term
		for _, sub := range re.Sub {
			t, err := reToSMT(sub)
			if err != nil {
				return nil, err
			}
			parts = append(parts, t)
		}
		return mk("re.union", SRegLan, parts...), nil
	}
	return nil, fmt.Errorf("unsupported regexp construct %s (anchors inside the pattern, word boundaries, ...)", re.Op)
}

// runeClass builds a union of ranges. Code points above the SMT-LIB maximum (0x2FFFF) are clipped; Go's
// utf8.MaxRune is 0x10FFFF (documented in A-REGEXP).
func runeClass(rs []rune) *Term {
	var alts []*Term
	for i := 0; i+1 < len(rs); i += 2 {
		lo, hi := rs[i], rs[i+1]
		if lo > 0x2FFFF {
			continue
		}
		if hi > 0x2FFFF || hi == unicode.MaxRune {
			hi = 0x2FFFF
		}
		if lo == hi {
			alts = append(alts, reStr(string(lo)))
		} else {
			alts = append(alts, mk("re.range", SRegLan, StrLit(string(lo)), StrLit(string(hi))))
		}
	}
	switch len(alts) {
	case 0:
		return reNone
	case 1:
		return alts[0]
	}
	return mk("re.union", SRegLan, alts...)
}
