package main

// Assumed contracts ("models") of library functions. Every model names the assumption tag it rests on; the tags
// used by a run are listed in the evidence.

import (
	"fmt"
	"go/constant"
	"go/types"
	"strings"

	"golang.org/x/tools/go/ssa"
)

type Model struct {
	Assumption string
	Mods       []string
	ModsFn     func(c *ssa.CallCommon) []string
	Apply      func(e *Exec, f *ssa.Function, c *ssa.CallCommon, args []Val) Val
	ApplyInvoke func(e *Exec, c *ssa.CallCommon, recv *Term, args []Val) Val
}

func (m *Model) modsFor(c *ssa.CallCommon) []string {
	if m.ModsFn != nil {
		return m.ModsFn(c)
	}
	return m.Mods
}

var models = map[string]*Model{}
var invokeModels = map[string]*Model{}

var gonumStaticModel = &Model{Assumption: "A-GONUM", Mods: []string{"next"}, Apply: func(e *Exec, f *ssa.Function, c *ssa.CallCommon, args []Val) Val {
	if f.Signature.Recv() != nil && len(args) > 0 {
		recv := e.toTerm(args[0], c.Args[0].Type())
		if _, isPtr := c.Args[0].Type().Underlying().(*types.Pointer); isPtr {
			e.safety("nilderef", Neq(recv, IntLit(0)))
		}
	}
	return e.gonumResult(f.Name(), f.Signature.Results())
}}

func gonumFunc(f *ssa.Function) bool {
	if f.Pkg != nil {
		return isGonumPath(f.Pkg.Pkg.Path())
	}
	if o := f.Origin(); o != nil && o.Pkg != nil {
		return isGonumPath(o.Pkg.Pkg.Path())
	}
	if f.Signature.Recv() != nil {
		if n, ok := derefNamed(f.Signature.Recv().Type()); ok && n.Obj().Pkg() != nil {
			return isGonumPath(n.Obj().Pkg().Path())
		}
	}
	return false
}

func lookupModel(f *ssa.Function) *Model {
	if m, ok := models[fullName(f)]; ok {
		return m
	}
	if gonumFunc(f) {
		return gonumStaticModel
	}
	// enum String() methods of the proto package
	if f.Signature.Recv() != nil && f.Name() == "String" && f.Pkg != nil && f.Pkg.Pkg.Path() == "github.com/openfga/api/proto/openfga/v1" {
		if b, ok := f.Signature.Recv().Type().Underlying().(*types.Basic); ok && b.Info()&types.IsInteger != 0 {
			return enumStringModel
		}
	}
	return nil
}

func isGonumPath(path string) bool { return strings.HasPrefix(path, "gonum.org/v1/gonum/") }

// gonumResult: A-GONUM (assumed contract of the gonum graph packages): a call writes only gonum's own memory (the
// caller's heap is untouched), returns fresh unconstrained values, and returns non-nil graphs, nodes, lines, edges and
// iterators - except Node(id)/Line lookups, which may be nil for an absent element. Nothing is assumed about WHICH
// elements come back (no "returns what was added").
func (e *Exec) gonumResult(name string, res *types.Tuple) Val {
	e.root().Assumed["A-GONUM"] = true
	mkOne := func(t types.Type) Val {
		mayBeNil := name == "Node" || name == "Edge" && false
		switch u := t.Underlying().(type) {
		case *types.Pointer:
			if !mayBeNil {
				r := e.alloc()
				e.assume(Implies(e.guard(), Eq(RType(r), tagOf(u.Elem()))))
				return r
			}
		case *types.Interface:
			v := Fresh("gonum$"+name, SIface)
			e.assumeWF(v, t, e.curState)
			if !mayBeNil {
				e.assume(Implies(e.guard(), And(Neq(ITag(v), IntLit(0)), Neq(IVal(v), IntLit(0)))))
			}
			return v
		case *types.Slice:
			v := Fresh("gonum$"+name, SSlice)
			e.assumeWF(v, t, e.curState)
			if name == "DirectedCyclesIn" {
				// every node list of the result is a well-formed slice of non-nil nodes
				inner, ok := u.Elem().Underlying().(*types.Slice)
				if ok {
					bi, bj := BoundVar("i", SInt), BoundVar("j", SInt)
					el := e.elemAt(e.curState, v, bi, SSlice)
					nd := e.elemAt(e.curState, el, bj, sortOf(inner.Elem()))
					e.assume(Implies(e.guard(), Forall([]*Term{bi}, Implies(And(Le(IntLit(0), bi), Lt(bi, SLen(v))),
						And(wfTerm(el, u.Elem(), e.curState.next),
							Forall([]*Term{bj}, Implies(And(Le(IntLit(0), bj), Lt(bj, SLen(el))), And(Neq(ITag(nd), IntLit(0)), Neq(IVal(nd), IntLit(0)))), []*Term{nd}))), []*Term{el})))
				}
			}
			return v
		}
		v := Fresh("gonum$"+name, sortOf(t))
		e.assumeWF(v, t, e.curState)
		return v
	}
	switch res.Len() {
	case 0:
		return nil
	case 1:
		return mkOne(res.At(0).Type())
	}
	out := make(Tuple, res.Len())
	for i := range out {
		out[i] = mkOne(res.At(i).Type())
	}
	return out
}

var gonumInvokeModel = &Model{Assumption: "A-GONUM", Mods: []string{"next"}, ApplyInvoke: func(e *Exec, c *ssa.CallCommon, recv *Term, args []Val) Val {
	e.safety("nilderef", Neq(ITag(recv), IntLit(0)))
	return e.gonumResult(c.Method.Name(), c.Signature().Results())
}}

func lookupInvokeModel(c *ssa.CallCommon) *Model {
	name := c.Method.Name()
	recvT := c.Value.Type().String()
	if strings.Contains(recvT, "gonum.org/v1/gonum/") {
		return gonumInvokeModel
	}
	if pk := c.Method.Pkg(); pk != nil && isGonumPath(pk.Path()) {
		return gonumInvokeModel
	}
	if m, ok := invokeModels[recvT+"."+name]; ok {
		return m
	}
	if name == "Error" && types.Identical(c.Value.Type().Underlying(), types.Universe.Lookup("error").Type().Underlying()) {
		return errorMethodModel
	}
	if strings.Contains(recvT, "antlr4-go/antlr") || strings.Contains(recvT, "/pkg/go/gen.") {
		return antlrGetterModel
	}
	return nil
}

func strModelFn(name string) (string, Sort) {
	switch name {
	case "queryUnescapeOK":
		return "m_queryUnescapeOK", SBool
	}
	return "m_" + name, SString
}

func sfn(name string, ret Sort, args ...*Term) *Term {
	var ss []Sort
	for _, a := range args {
		ss = append(ss, a.Sort)
	}
	return App(DeclFun(name, ss, ret), ret, args...)
}

func (e *Exec) targs(c *ssa.CallCommon, args []Val) []*Term {
	out := make([]*Term, len(args))
	for i, a := range args {
		out[i] = e.toTerm(a, c.Args[i].Type())
	}
	return out
}

var spaceChars = " \t\n\v\f\r\u0085 "

func wsRegex() *Term {
	// Unicode White_Space characters that strings.TrimSpace removes (ASCII ones plus U+0085, U+00A0; the remaining
	// non-ASCII spaces are included for completeness)
	var alts []*Term
	for _, r := range []rune{' ', '\t', '\n', '\v', '\f', '\r', 0x85, 0xa0, 0x1680, 0x2028, 0x2029, 0x202f, 0x205f, 0x3000} {
		alts = append(alts, mk("str.to_re", SRegLan, StrLit(string(r))))
	}
	alts = append(alts, mk("re.range", SRegLan, StrLit(" "), StrLit(" ")))
	return mk("re.union", SRegLan, alts...)
}

func init() {
	pureStr := func(assump string, fn func(e *Exec, a []*Term) Val) *Model {
		return &Model{Assumption: assump, Apply: func(e *Exec, f *ssa.Function, c *ssa.CallCommon, args []Val) Val {
			return fn(e, e.targs(c, args))
		}}
	}
	models["strings.HasPrefix"] = pureStr("A-STRINGS", func(e *Exec, a []*Term) Val { return mk("str.prefixof", SBool, a[1], a[0]) })
	models["strings.HasSuffix"] = pureStr("A-STRINGS", func(e *Exec, a []*Term) Val { return mk("str.suffixof", SBool, a[1], a[0]) })
	models["strings.Contains"] = pureStr("A-STRINGS", func(e *Exec, a []*Term) Val { return mk("str.contains", SBool, a[0], a[1]) })
	models["strings.Index"] = pureStr("A-STRINGS", func(e *Exec, a []*Term) Val { return mk("str.indexof", SInt, a[0], a[1], IntLit(0)) })
	models["strings.TrimPrefix"] = pureStr("A-STRINGS", func(e *Exec, a []*Term) Val {
		return Ite(mk("str.prefixof", SBool, a[1], a[0]), mk("str.substr", SString, a[0], mk("str.len", SInt, a[1]), mk("str.len", SInt, a[0])), a[0])
	})
	models["strings.CutPrefix"] = pureStr("A-STRINGS", func(e *Exec, a []*Term) Val {
		found := mk("str.prefixof", SBool, a[1], a[0])
		return Tuple{Ite(found, mk("str.substr", SString, a[0], mk("str.len", SInt, a[1]), Sub(mk("str.len", SInt, a[0]), mk("str.len", SInt, a[1]))), a[0]), found}
	})
	models["strings.CutSuffix"] = pureStr("A-STRINGS", func(e *Exec, a []*Term) Val {
		found := mk("str.suffixof", SBool, a[1], a[0])
		return Tuple{Ite(found, mk("str.substr", SString, a[0], IntLit(0), Sub(mk("str.len", SInt, a[0]), mk("str.len", SInt, a[1]))), a[0]), found}
	})
	models["strings.ReplaceAll"] = pureStr("A-STRINGS", func(e *Exec, a []*Term) Val {
		r := sfn("m_replaceAll", SString, a[0], a[1], a[2])
		// post-facts used by the path rules (single-character old): result contains no `old`, has the same length,
		// and is the input when the input contains no `old`.
		if a[1].Op == "" && len(a[1].Name) >= 3 && a[2].Op == "" {
			e.assume(Implies(Not(mk("str.contains", SBool, a[0], a[1])), Eq(r, a[0])))
			if oneChar(a[1]) && oneChar(a[2]) {
				e.assume(Eq(mk("str.len", SInt, r), mk("str.len", SInt, a[0])))
				if a[1] != a[2] {
					e.assume(Not(mk("str.contains", SBool, r, a[1])))
				}
				// character-wise description
				bi := BoundVar("i", SInt)
				e.assume(Forall([]*Term{bi}, Implies(And(Le(IntLit(0), bi), Lt(bi, mk("str.len", SInt, a[0]))),
					Eq(mk("str.at", SString, r, bi), Ite(Eq(mk("str.at", SString, a[0], bi), a[1]), a[2], mk("str.at", SString, a[0], bi)))),
					[]*Term{mk("str.at", SString, r, bi)}))
			}
		}
		return r
	})
	models["strings.TrimSpace"] = pureStr("A-STRINGS", func(e *Exec, a []*Term) Val { return e.trimModel("m_trimSpace", a[0], nil, true, true) })
	models["strings.TrimLeft"] = pureStr("A-STRINGS", func(e *Exec, a []*Term) Val { return e.trimModel("m_trimLeft", a[0], a[1], true, false) })
	models["strings.TrimRight"] = pureStr("A-STRINGS", func(e *Exec, a []*Term) Val { return e.trimModel("m_trimRight", a[0], a[1], false, true) })
	models["strings.ToLower"] = pureStr("A-STRINGS", func(e *Exec, a []*Term) Val { return sfn("m_toLower", SString, a[0]) })
	models["strings.ToUpper"] = pureStr("A-STRINGS", func(e *Exec, a []*Term) Val { return sfn("m_toUpper", SString, a[0]) })
	models["strings.Join"] = &Model{Assumption: "A-STRINGS", Apply: func(e *Exec, f *ssa.Function, c *ssa.CallCommon, args []Val) Val {
		a := e.targs(c, args)
		return e.joinModel(a[0], a[1])
	}}
	models["strings.Split"] = &Model{Assumption: "A-STRINGS", Mods: []string{"next"}, Apply: func(e *Exec, f *ssa.Function, c *ssa.CallCommon, args []Val) Val {
		a := e.targs(c, args)
		return e.splitModel(a[0], a[1])
	}}
	models["cmp.Compare"] = &Model{Assumption: "A-STRINGS", Apply: func(e *Exec, f *ssa.Function, c *ssa.CallCommon, args []Val) Val {
		a := e.targs(c, args)
		if a[0].Sort == SString {
			return Ite(mk("str.<", SBool, a[0], a[1]), IntLit(-1), Ite(Eq(a[0], a[1]), IntLit(0), IntLit(1)))
		}
		return Ite(Lt(a[0], a[1]), IntLit(-1), Ite(Eq(a[0], a[1]), IntLit(0), IntLit(1)))
	}}
	models["strings.Compare"] = models["cmp.Compare"]
	models["math.Max"] = &Model{Assumption: "A-MATH", Apply: func(e *Exec, f *ssa.Function, c *ssa.CallCommon, args []Val) Val {
		a := e.targs(c, args)
		return Ite(Le(a[0], a[1]), a[1], a[0])
	}}
	models["fmt.Sprintf"] = &Model{Assumption: "A-FMT", Mods: []string{"next"}, Apply: func(e *Exec, f *ssa.Function, c *ssa.CallCommon, args []Val) Val {
		s, _ := e.formatModel(c, args)
		return s
	}}
	models["fmt.Errorf"] = &Model{Assumption: "A-FMT", Mods: []string{"next"}, Apply: func(e *Exec, f *ssa.Function, c *ssa.CallCommon, args []Val) Val {
		msg, wrapped := e.formatModel(c, args)
		return e.newError(msg, wrapped, "fmt.wrapError")
	}}
	models["errors.New"] = &Model{Assumption: "A-FMT", Mods: []string{"next"}, Apply: func(e *Exec, f *ssa.Function, c *ssa.CallCommon, args []Val) Val {
		a := e.targs(c, args)
		return e.newError(a[0], nil, "errors.errorString")
	}}
	models["errors.Is"] = &Model{Assumption: "A-FMT", Apply: func(e *Exec, f *ssa.Function, c *ssa.CallCommon, args []Val) Val {
		a := e.targs(c, args)
		return And(Neq(ITag(a[0]), IntLit(0)), sfn("wraps", SBool, a[0], a[1]))
	}}
	models["errors.As"] = &Model{Assumption: "A-MULTIERR", ModsFn: func(c *ssa.CallCommon) []string { return []string{cellComp(SInt)} },
		Apply: func(e *Exec, f *ssa.Function, c *ssa.CallCommon, args []Val) Val {
			// errors.As(err, &target) with target of pointer type *T: succeeds iff the chain contains a *T. Modelled for the
			// direct case only (dynamic type of err is *T) plus an unknown answer otherwise.
			errv := e.toTerm(args[0], c.Args[0].Type())
			mi, ok := c.Args[1].(*ssa.MakeInterface)
			if !ok {
				unsupported("errors.As with non-literal target")
			}
			ptrT := mi.X.Type().Underlying().(*types.Pointer).Elem()
			tl := e.locOf(e.val(mi.X), mi.X.Type())
			direct := Eq(ITag(errv), tagOf(ptrT))
			other := Fresh("as_ok", SBool)
			ok2 := Or(direct, And(Neq(ITag(errv), IntLit(0)), other))
			found := Fresh("as_val", SInt)
			e.assume(Implies(e.guard(), And(Implies(direct, Eq(found, IVal(errv))), Implies(ok2, Neq(found, IntLit(0))), Lt(found, e.curState.next))))
			old := e.load(tl).(*Term)
			e.store(tl, Ite(ok2, found, old))
			return ok2
		}}
	models["slices.Contains"] = &Model{Assumption: "A-SORT", Apply: func(e *Exec, f *ssa.Function, c *ssa.CallCommon, args []Val) Val {
		a := e.targs(c, args)
		es := a[1].Sort
		bi := BoundVar("i", SInt)
		r := Fresh("contains", SBool)
		at := e.elemAt(e.curState, a[0], bi, es)
		e.assume(Implies(e.guard(), Eq(r, Exists([]*Term{bi}, And(Le(IntLit(0), bi), Lt(bi, SLen(a[0])), Eq(at, a[1]))))))
		return r
	}}
	models["slices.Clone"] = &Model{Assumption: "A-SORT", Mods: []string{"next"}, Apply: func(e *Exec, f *ssa.Function, c *ssa.CallCommon, args []Val) Val {
		// nil stays nil; otherwise a fresh backing array with the same elements (capacity at least the length)
		s := e.toTerm(args[0], c.Args[0].Type())
		es := sortOf(c.Args[0].Type().Underlying().(*types.Slice).Elem())
		isNil := Eq(SArr(s), IntLit(0))
		st := e.curState
		r := st.next
		allocRefs[r.id] = true
		newCap := Fresh("clonecap", SInt)
		comp := e.elems(st, es)
		bi := BoundVar("i", SInt)
		newArr := Select(comp, r)
		oldArr := Select(comp, SArr(s))
		e.assume(Implies(And(e.guard(), Not(isNil)), And(Ge(newCap, SLen(s)), Le(newCap, BigIntLit("1152921504606846976")), Eq(RType(r), arrayTag(es)),
			Forall([]*Term{bi}, Implies(And(Le(IntLit(0), bi), Lt(bi, SLen(s))), Eq(At(newArr, IntLit(0), bi), At(oldArr, SOff(s), bi))), []*Term{At(newArr, IntLit(0), bi)}))))
		st.next = Ite(isNil, st.next, Add(st.next, IntLit(1)))
		return Ite(isNil, nilSlice, MkSlice(r, IntLit(0), SLen(s), newCap))
	}}
	models["slices.IndexFunc"] = &Model{Assumption: "A-SORT", Apply: func(e *Exec, f *ssa.Function, c *ssa.CallCommon, args []Val) Val {
		s := e.toTerm(args[0], c.Args[0].Type())
		fv, ok := args[1].(*FuncVal)
		if !ok {
			unsupported("slices.IndexFunc with unknown predicate")
		}
		st := c.Args[0].Type().Underlying().(*types.Slice)
		es := sortOf(st.Elem())
		pred := func(x *Term) *Term { return e.applyPure(fv, []Val{x}).(*Term) }
		r := Fresh("indexfunc", SInt)
		bi := BoundVar("j", SInt)
		e.assume(Implies(e.guard(), And(
			Le(IntLit(-1), r), Lt(r, SLen(s)),
			Implies(Ge(r, IntLit(0)), pred(e.elemAt(e.curState, s, r, es))),
			Forall([]*Term{bi}, Implies(And(Le(IntLit(0), bi), Lt(bi, Ite(Ge(r, IntLit(0)), r, SLen(s)))), Not(pred(e.elemAt(e.curState, s, bi, es))))))))
		return r
	}}
	sortModel := func(stable bool) *Model {
		return &Model{Assumption: "A-SORT", ModsFn: func(c *ssa.CallCommon) []string {
			return []string{elemComp(sortOf(c.Args[0].Type().Underlying().(*types.Slice).Elem()))}
		}, Apply: func(e *Exec, f *ssa.Function, c *ssa.CallCommon, args []Val) Val {
			s := e.toTerm(args[0], c.Args[0].Type())
			es := sortOf(c.Args[0].Type().Underlying().(*types.Slice).Elem())
			var cmp func(a, b *Term) *Term
			if len(args) > 1 {
				fv, ok := args[1].(*FuncVal)
				if !ok {
					unsupported("sort with unknown comparator")
				}
				cmp = func(a, b *Term) *Term { return e.applyPure(fv, []Val{a, b}).(*Term) }
			} else {
				cmp = func(a, b *Term) *Term {
					if es == SString {
						return Ite(mk("str.<", SBool, a, b), IntLit(-1), Ite(Eq(a, b), IntLit(0), IntLit(1)))
					}
					return Sub(a, b)
				}
			}
			e.sortInPlace(s, es, cmp)
			return nil
		}}
	}
	models["slices.SortFunc"] = sortModel(false)
	models["slices.SortStableFunc"] = sortModel(true)
	models["slices.Sort"] = sortModel(false)
	models["sort.Strings"] = sortModel(false)
	models["github.com/hashicorp/go-multierror.Append"] = &Model{Assumption: "A-MULTIERR",
		Mods: []string{"next", "F$multierror.Error.Errors", elemComp(SIface)},
		Apply: func(e *Exec, f *ssa.Function, c *ssa.CallCommon, args []Val) Val {
			return e.multierrorAppend(c, args)
		}}
	models["net/url.QueryUnescape"] = &Model{Assumption: "A-URL", Mods: []string{"next"}, Apply: func(e *Exec, f *ssa.Function, c *ssa.CallCommon, args []Val) Val {
		a := e.targs(c, args)
		plain := And(Not(mk("str.contains", SBool, a[0], StrLit("%"))), Not(mk("str.contains", SBool, a[0], StrLit("+"))))
		ok := sfn("m_queryUnescapeOK", SBool, a[0])
		val := sfn("m_queryUnescape", SString, a[0])
		e.assume(Implies(plain, And(ok, Eq(val, a[0]))))
		errv := Fresh("unescErr", SIface)
		e.assume(Implies(e.guard(), And(Eq(Eq(ITag(errv), IntLit(0)), ok), wfTerm(errv, types.Universe.Lookup("error").Type(), e.curState.next))))
		return Tuple{Ite(ok, val, StrLit("")), errv}
	}}
	models["gopkg.in/yaml.v3.Unmarshal"] = &Model{Assumption: "A-YAML", Mods: []string{"*"}, Apply: func(e *Exec, f *ssa.Function, c *ssa.CallCommon, args []Val) Val {
		// fills the target with arbitrary finite node trees or returns an error; the heap is havocked, inputs untouched
		old := e.curState
		e.curState = old.HavocAll()
		e.assume(Implies(e.guard(), Ge(e.curState.next, old.next)))
		errv := Fresh("yamlErr", SIface)
		e.assumeWF(errv, types.Universe.Lookup("error").Type(), e.curState)
		// A-YAML: every node has non-negative Line/Column and the elements of its Content list are non-nil
		if obj := f.Pkg.Pkg.Scope().Lookup("Node"); obj != nil {
			nodeT := obj.Type()
			st := nodeT.Underlying().(*types.Struct)
			r := BoundVar("n", SInt)
			var facts []*Term
			for i := 0; i < st.NumFields(); i++ {
				fld := st.Field(i)
				l := &Loc{Kind: LField, Ref: r, Struct: nodeT, Field: i, Type: fld.Type()}
				switch fld.Name() {
				case "Line", "Column":
					v := e.loadIn(l, e.curState).(*Term)
					facts = append(facts, And(Le(IntLit(0), v), Le(v, BigIntLit("4611686018427387904"))))
				case "Content":
					sl := e.loadIn(l, e.curState).(*Term)
					es := sortOf(fld.Type().Underlying().(*types.Slice).Elem())
					bi := BoundVar("i", SInt)
					el := e.elemAt(e.curState, sl, bi, es)
					facts = append(facts, Forall([]*Term{bi}, Implies(And(Le(IntLit(0), bi), Lt(bi, SLen(sl))), Neq(el, IntLit(0))), []*Term{el}))
				}
			}
			if len(facts) > 0 {
				lineComp := e.curState.Get(fieldComp(nodeT, fieldIndex(st, "Line")), ArraySort(SInt, SInt))
				e.assume(Implies(e.guard(), Forall([]*Term{r}, And(facts...), []*Term{Select(lineComp, r)})))
				e.assume(Implies(e.guard(), Forall([]*Term{r}, And(facts...))))
			}
		}
		return errv
	}}
	models["(*gopkg.in/yaml.v3.Node).IsZero"] = &Model{Assumption: "A-YAML", Apply: func(e *Exec, f *ssa.Function, c *ssa.CallCommon, args []Val) Val {
		// documented: Kind == 0 && Style == 0 && Tag == "" && Value == "" && Anchor == "" && Alias == nil && Content == nil && comments empty && Line == 0 && Column == 0
		ref := e.toTerm(args[0], c.Args[0].Type())
		nodeT := c.Args[0].Type().Underlying().(*types.Pointer).Elem()
		st := nodeT.Underlying().(*types.Struct)
		var conj []*Term
		for i := 0; i < st.NumFields(); i++ {
			l := &Loc{Kind: LField, Ref: ref, Struct: nodeT, Field: i, Type: st.Field(i).Type()}
			v := e.load(l).(*Term)
			if st.Field(i).Type().Underlying().(interface{ String() string }) != nil {
			}
			switch v.Sort {
			case SSlice:
				conj = append(conj, Eq(SArr(v), IntLit(0)))
			default:
				conj = append(conj, Eq(v, zeroOf(st.Field(i).Type())))
			}
		}
		return And(conj...)
	}}
	models["regexp.MatchString"] = &Model{Assumption: "A-REGEXP", Apply: func(e *Exec, f *ssa.Function, c *ssa.CallCommon, args []Val) Val {
		a := e.targs(c, args)
		pat, ok := strLitValue(a[0])
		if !ok {
			unsupported("regexp.MatchString with non-constant pattern")
		}
		re, err := RegexToSMT(pat)
		if err != nil {
			unsupported("regexp pattern %q: %v", pat, err)
		}
		e.root().notes = append(e.root().notes, "regexp pattern "+fmt.Sprintf("%q", pat))
		return Tuple{mk("str.in_re", SBool, a[1], re), nilIface}
	}}
	models["github.com/oklog/ulid/v2.Make"] = &Model{Assumption: "A-ULID", Apply: func(e *Exec, f *ssa.Function, c *ssa.CallCommon, args []Val) Val {
		return Fresh("ulid", sortOf(f.Signature.Results().At(0).Type()))
	}}
	models["(github.com/oklog/ulid/v2.ULID).String"] = &Model{Assumption: "A-ULID", Apply: func(e *Exec, f *ssa.Function, c *ssa.CallCommon, args []Val) Val {
		a := e.targs(c, args)
		s := sfn("m_ulidString", SString, a[0])
		// 26 characters of Crockford base32
		re, _ := RegexToSMT("^[0-9A-HJKMNP-TV-Z]{26}$")
		e.assume(mk("str.in_re", SBool, s, re))
		return s
	}}
	models["google.golang.org/protobuf/encoding/protojson.Marshal"] = &Model{Assumption: "A-PROTOJSON", Mods: []string{"next"}, Apply: func(e *Exec, f *ssa.Function, c *ssa.CallCommon, args []Val) Val {
		return e.freshResults(f.Signature.Results(), "protojson")
	}}
}

var enumStringModel = &Model{Assumption: "A-FMT", Apply: func(e *Exec, f *ssa.Function, c *ssa.CallCommon, args []Val) Val {
	a := e.targs(c, args)
	return sfn("m_enumName", SString, a[0])
}}

var errorMethodModel = &Model{Assumption: "A-FMT", ApplyInvoke: func(e *Exec, c *ssa.CallCommon, recv *Term, args []Val) Val {
	e.safety("nilderef", Neq(ITag(recv), IntLit(0)))
	return sfn("m_errmsg", SString, recv)
}}

// antlrGetterModel: context/token getters are pure functions of the receiver (A-ANTLR-RT); results are otherwise
// unconstrained (nil-able). NotifyErrorListeners increments the ghost error counter.
var antlrGetterModel = &Model{Assumption: "A-ANTLR-RT", ApplyInvoke: func(e *Exec, c *ssa.CallCommon, recv *Term, args []Val) Val {
	e.safety("nilderef", Neq(ITag(recv), IntLit(0)))
	var as []*Term
	for i, a := range args {
		as = append(as, e.toTerm(a, c.Args[i].Type()))
	}
	return e.antlrResult(c.Method.Name(), IVal(recv), as, c.Signature().Results())
}}

// antlrResult: ANTLR context/token/parser methods are pure functions of the receiver object and their arguments
// (A-ANTLR-RT); the same symbol is used for calls through an interface, static calls on the concrete context types and
// uses inside contracts, so all of them agree. NotifyErrorListeners increments the ghost error counter.
func (e *Exec) antlrResult(name string, recv *Term, args []*Term, res *types.Tuple) Val {
	if name == "NotifyErrorListeners" {
		e.bumpErrs()
		if len(args) >= 2 {
			r := e.root()
			prev := r.errTok
			if prev == nil || prev.Sort != args[1].Sort {
				prev = zeroOfSort(args[1].Sort)
			}
			r.errTok = Ite(e.guard(), args[1], prev)
		}
		return nil
	}
	if res.Len() == 0 {
		return nil
	}
	as := append([]*Term{recv}, args...)
	mkRes := func(i int) *Term {
		t := res.At(i).Type()
		// the result sort is part of the symbol: different receivers have same-named methods of different types
		// (CommonToken.GetStart() int vs ParserRuleContext.GetStart() Token)
		r := sfn(fmt.Sprintf("antlr_%s_%d_%s", name, i, strings.Trim(sortTag(sortOf(t)), ".")), sortOf(t), as...)
		if r.flags&flagHasBound == 0 {
			e.assume(wfTerm(r, t, e.entryNextOrCur()))
		}
		return r
	}
	if res.Len() == 1 {
		return mkRes(0)
	}
	out := make(Tuple, res.Len())
	for i := range out {
		out[i] = mkRes(i)
	}
	return out
}

func isAntlrPkg(path string) bool {
	return strings.Contains(path, "antlr4-go/antlr") || strings.HasSuffix(path, "/pkg/go/gen")
}

// antlrStatic reports whether f is a method of the ANTLR runtime or of the generated parser that is NOT a plain field
// getter (those are inlined): such methods are abstracted by antlrResult.
func antlrStatic(f *ssa.Function) bool {
	if f.Signature.Recv() == nil {
		return false
	}
	path := ""
	if f.Pkg != nil {
		path = f.Pkg.Pkg.Path()
	} else if o := f.Origin(); o != nil && o.Pkg != nil {
		path = o.Pkg.Pkg.Path()
	} else if named, ok := derefNamed(f.Signature.Recv().Type()); ok && named.Obj().Pkg() != nil {
		path = named.Obj().Pkg().Path() // wrapper/promoted method synthesized by ssa
	}
	if !isAntlrPkg(path) {
		return false
	}
	if len(f.Blocks) == 0 {
		return true
	}
	n := 0
	for _, b := range f.Blocks {
		for _, s := range b.Succs {
			if s.Dominates(b) {
				return true
			}
		}
		for _, in := range b.Instrs {
			n++
			switch in.(type) {
			case *ssa.Call, *ssa.TypeAssert, *ssa.MakeInterface, *ssa.Alloc, *ssa.Store:
				return true
			}
		}
	}
	return n > 14
}

// antlrConstructor: package-level NewX function of the ANTLR runtime or the generated parser.
func antlrConstructor(f *ssa.Function) bool {
	if f.Signature.Recv() != nil || f.Pkg == nil || !isAntlrPkg(f.Pkg.Pkg.Path()) {
		return false
	}
	return strings.HasPrefix(f.Name(), "New")
}

func derefNamed(t types.Type) (*types.Named, bool) {
	if p, ok := t.(*types.Pointer); ok {
		t = p.Elem()
	}
	n, ok := t.(*types.Named)
	return n, ok
}

func (e *Exec) entryNextOrCur() *Term { return e.root().entry.next }

func (e *Exec) bumpErrs() {
	r := e.root()
	if r.errsGhost == nil {
		r.errsGhost = IntLit(0)
	}
	r.errsGhost = Ite(e.curReach, Add(r.errsGhost, IntLit(1)), r.errsGhost)
}

func fieldIndex(st *types.Struct, name string) int {
	for i := 0; i < st.NumFields(); i++ {
		if st.Field(i).Name() == name {
			return i
		}
	}
	return 0
}

func oneChar(t *Term) bool {
	s, ok := strLitValue(t)
	return ok && len([]rune(s)) == 1
}

// strLitValue decodes an SMT string literal created by StrLit.
func strLitValue(t *Term) (string, bool) {
	if t.Sort.Base() == SInt {
		if v, ok := intVal(t); ok {
			for s, id := range strIDs {
				if id == v && (v != 0 || s == "") {
					return s, true
				}
			}
		}
		return "", false
	}
	if t.Op != "" || t.Sort != SString || len(t.Name) < 2 || t.Name[0] != '"' {
		return "", false
	}
	body := t.Name[1 : len(t.Name)-1]
	var sb strings.Builder
	for i := 0; i < len(body); i++ {
		if body[i] == '"' && i+1 < len(body) && body[i+1] == '"' {
			sb.WriteByte('"')
			i++
			continue
		}
		if strings.HasPrefix(body[i:], `\u{`) {
			j := strings.IndexByte(body[i:], '}')
			var r rune
			fmt.Sscanf(body[i+3:i+j], "%x", &r)
			sb.WriteRune(r)
			i += j
			continue
		}
		sb.WriteByte(body[i])
	}
	return sb.String(), true
}

// trimModel: result of trimming characters (cutset literal, or Unicode space when cutset is nil). The defining
// facts are a global axiom over skolem functions, so they also apply under quantifiers.
func (e *Exec) trimModel(fn string, s, cutset *Term, left, right bool) *Term {
	var cls *Term
	name := fn
	if cutset == nil {
		cls = wsRegex()
	} else {
		cs, ok := strLitValue(cutset)
		if !ok {
			return sfn(fn+"_dyn", SString, s, cutset)
		}
		var alts []*Term
		for _, ch := range cs {
			alts = append(alts, mk("str.to_re", SRegLan, StrLit(string(ch))))
			name += fmt.Sprintf("_%x", ch)
		}
		if len(alts) == 1 {
			cls = alts[0]
		} else {
			cls = mk("re.union", SRegLan, alts...)
		}
	}
	f := DeclFun(name, []Sort{SString}, SString)
	fl := DeclFun(name+"_pre", []Sort{SString}, SString)
	fr := DeclFun(name+"_suf", []Sort{SString}, SString)
	if _, ok := TS.axioms[f]; !ok {
		x := BoundVar("s", SString)
		r, pre, suf := App(f, SString, x), App(fl, SString, x), App(fr, SString, x)
		star := mk("re.*", SRegLan, cls)
		notCls := func(c *Term) *Term { return Not(mk("str.in_re", SBool, c, cls)) }
		facts := []*Term{Eq(x, mk("str.++", SString, pre, r, suf))}
		if left {
			facts = append(facts, mk("str.in_re", SBool, pre, star))
			facts = append(facts, Implies(Neq(r, StrLit("")), notCls(mk("str.at", SString, r, IntLit(0)))))
		} else {
			facts = append(facts, Eq(pre, StrLit("")))
		}
		if right {
			facts = append(facts, mk("str.in_re", SBool, suf, star))
			facts = append(facts, Implies(Neq(r, StrLit("")), notCls(mk("str.at", SString, r, Sub(mk("str.len", SInt, r), IntLit(1))))))
		} else {
			facts = append(facts, Eq(suf, StrLit("")))
		}
		AddInstAxiom(f, []*Term{x}, r, And(facts...))
	}
	return App(f, SString, s)
}

func (e *Exec) joinModel(s, sep *Term) *Term {
	// Join of a literal-length slice is concatenation; otherwise uninterpreted over (contents, len, sep).
	if n, ok := intVal(SLen(s)); ok && n <= 8 {
		if n == 0 {
			return StrLit("")
		}
		parts := []*Term{}
		for i := int64(0); i < n; i++ {
			if i > 0 {
				parts = append(parts, sep)
			}
			parts = append(parts, e.elemAt(e.curState, s, IntLit(i), SString))
		}
		if len(parts) == 1 {
			return parts[0]
		}
		return mk("str.++", SString, parts...)
	}
	// abstract sequence view: join(arrayContents shifted, len, sep)
	view := e.seqView(s, SString)
	r := sfn("m_join", SString, view, SLen(s), sep)
	e.assume(Implies(Eq(SLen(s), IntLit(0)), Eq(r, StrLit(""))))
	e.assume(Implies(Eq(SLen(s), IntLit(1)), Eq(r, Select(view, IntLit(0)))))
	return r
}

// seqView returns an (Array Int es) whose i-th element is s[i] for 0<=i<len(s) (defined by a quantified fact).
func (e *Exec) seqView(s *Term, es Sort) *Term {
	arr := Select(e.elems(e.curState, es), SArr(s))
	if off, ok := intVal(SOff(s)); ok && off == 0 {
		return arr
	}
	v := Fresh("view", ArraySort(SInt, es))
	bi := BoundVar("i", SInt)
	e.assume(Forall([]*Term{bi}, Eq(Select(v, bi), Select(arr, Add(SOff(s), bi))), []*Term{Select(v, bi)}))
	return v
}

func (e *Exec) splitModel(s, sep *Term) *Term {
	// result: fresh slice of >= 1 parts whose Join(sep) is s and none of which contains sep (sep non-empty)
	r := e.alloc()
	n := Fresh("splitN", SInt)
	res := MkSlice(r, IntLit(0), n, n)
	arr := Select(e.elems(e.curState, SString), r)
	bi := BoundVar("i", SInt)
	first := Select(arr, IntLit(0))
	facts := []*Term{Ge(n, IntLit(1)), Le(n, Add(mk("str.len", SInt, s), IntLit(1))), Eq(RType(r), arrayTag(SString)),
		Forall([]*Term{bi}, Implies(And(Le(IntLit(0), bi), Lt(bi, n)), Not(mk("str.contains", SBool, Select(arr, bi), sep))), []*Term{Select(arr, bi)}),
		Eq(sfn("m_join", SString, arr, n, sep), s),
		// first part: the longest prefix without the separator
		mk("str.prefixof", SBool, first, s),
		Implies(Not(mk("str.contains", SBool, s, sep)), And(Eq(n, IntLit(1)), Eq(first, s))),
		Implies(mk("str.contains", SBool, s, sep), And(Ge(n, IntLit(2)), Eq(first, mk("str.substr", SString, s, IntLit(0), mk("str.indexof", SInt, s, sep, IntLit(0)))))),
	}
	e.assume(Implies(e.guard(), And(facts...)))
	return res
}

// applyPure evaluates a closure (pure, loop-free) on the given arguments in the current state.
func (e *Exec) applyPure(fv *FuncVal, args []Val) Val {
	if !e.canInline(fv.Fn) {
		unsupported("closure %s is not a small loop-free function", fv.Fn)
	}
	ms := e.P.FuncModset(fv.Fn)
	for n := range ms {
		if n != "next" && !strings.HasPrefix(n, "alloc:") {
			unsupported("closure %s passed to a library function writes %s", fv.Fn, n)
		}
	}
	save, saveReach, saveSpec := e.curState, e.curReach, e.specMode
	e.curState = save.Clone()
	e.specMode = true
	ret := e.inlineCall(fv.Fn, fv.Bindings, args)
	e.curState, e.curReach, e.specMode = save, saveReach, saveSpec
	return ret
}

// sortInPlace: the slice afterwards is a permutation of before, ordered by cmp (A-SORT).
func (e *Exec) sortInPlace(s *Term, es Sort, cmp func(a, b *Term) *Term) {
	st := e.curState
	comp := e.elems(st, es)
	newComp := Fresh("sorted$"+elemComp(es), comp.Sort)
	ba := BoundVar("a", SInt)
	bi := BoundVar("i", SInt)
	bj := BoundVar("j", SInt)
	tgt := SArr(s)
	lo, hi := SOff(s), Add(SOff(s), SLen(s))
	at := func(c, i *Term) *Term { return Select(Select(c, tgt), i) }
	perm := Fresh("perm", ArraySort(SInt, SInt))
	inv := Fresh("perminv", ArraySort(SInt, SInt))
	inR := func(i *Term) *Term { return And(Le(lo, i), Lt(i, hi)) }
	facts := []*Term{
		Forall([]*Term{ba}, Implies(Neq(ba, tgt), Eq(Select(newComp, ba), Select(comp, ba))), []*Term{Select(newComp, ba)}),
		Forall([]*Term{bi}, Implies(Not(inR(bi)), Eq(at(newComp, bi), at(comp, bi))), []*Term{at(newComp, bi)}),
		// permutation: new[i] = old[perm[i]]; perm maps the window into itself and has the inverse inv (so it is a
		// bijection: nothing is lost, nothing is duplicated)
		Forall([]*Term{bi}, Implies(inR(bi), And(inR(Select(perm, bi)), Eq(Select(inv, Select(perm, bi)), bi), Eq(at(newComp, bi), at(comp, Select(perm, bi))))), []*Term{at(newComp, bi)}, []*Term{Select(perm, bi)}),
		Forall([]*Term{bj}, Implies(inR(bj), And(inR(Select(inv, bj)), Eq(Select(perm, Select(inv, bj)), bj), Eq(at(newComp, Select(inv, bj)), at(comp, bj)))), []*Term{at(comp, bj)}, []*Term{Select(inv, bj)}),
		// ordered
		Forall([]*Term{bi, bj}, Implies(And(inR(bi), inR(bj), Lt(bi, bj)), Le(cmp(at(newComp, bi), at(newComp, bj)), IntLit(0))), []*Term{at(newComp, bi), at(newComp, bj)}),
	}
	// the same facts on the element view at(arr, off, k) that contracts use
	oldArr, newArr := Select(comp, tgt), Select(newComp, tgt)
	bk := BoundVar("k", SInt)
	inW := func(k *Term) *Term { return And(Le(IntLit(0), k), Lt(k, SLen(s))) }
	viewPerm := Fresh("vperm", ArraySort(SInt, SInt))
	viewInv := Fresh("vinv", ArraySort(SInt, SInt))
	facts = append(facts,
		Forall([]*Term{bk}, Implies(inW(bk), And(inW(Select(viewPerm, bk)), Eq(Select(viewInv, Select(viewPerm, bk)), bk), Eq(At(newArr, SOff(s), bk), At(oldArr, SOff(s), Select(viewPerm, bk))))), []*Term{At(newArr, SOff(s), bk)}),
		Forall([]*Term{bk}, Implies(inW(bk), And(inW(Select(viewInv, bk)), Eq(Select(viewPerm, Select(viewInv, bk)), bk), Eq(At(newArr, SOff(s), Select(viewInv, bk)), At(oldArr, SOff(s), bk)))), []*Term{At(oldArr, SOff(s), bk)}),
		Forall([]*Term{bi, bj}, Implies(And(inW(bi), inW(bj), Lt(bi, bj)), Le(cmp(At(newArr, SOff(s), bi), At(newArr, SOff(s), bj)), IntLit(0))), []*Term{At(newArr, SOff(s), bi), At(newArr, SOff(s), bj)}),
	)
	e.assume(Implies(e.guard(), And(facts...)))
	st.Set(elemComp(es), newComp)
}

// ---------- errors ----------

// newError allocates a fresh error object with the given message wrapping the listed errors.
func (e *Exec) newError(msg *Term, wrapped []*Term, typeName string) *Term {
	r := e.alloc()
	tag := namedTag(typeName)
	e.assume(Implies(e.guard(), Eq(RType(r), tag)))
	ev := MkIface(tag, r)
	if msg.Sort == SString {
		e.assume(Implies(e.guard(), Eq(sfn("m_errmsg", SString, ev), msg)))
	}
	bt := BoundVar("t", SIface)
	w := Eq(bt, ev)
	for _, x := range wrapped {
		w = Or(w, And(Neq(ITag(x), IntLit(0)), sfn("wraps", SBool, x, bt)))
	}
	e.assume(Implies(e.guard(), Forall([]*Term{bt}, Eq(sfn("wraps", SBool, ev, bt), w), []*Term{sfn("wraps", SBool, ev, bt)})))
	return ev
}

var namedTags = map[string]*Term{}

func namedTag(name string) *Term {
	if t, ok := namedTags[name]; ok {
		return t
	}
	id := len(typeTags) + 1
	typeTags["named:"+name] = id
	typeTagList = append(typeTagList, nil)
	t := IntLit(int64(id))
	namedTags[name] = t
	return t
}

// formatModel: fmt.Sprintf/Errorf with a constant format string. Returns the text and the %w operands.
func (e *Exec) formatModel(c *ssa.CallCommon, args []Val) (*Term, []*Term) {
	fmtT := e.toTerm(args[0], c.Args[0].Type())
	format, ok := strLitValue(fmtT)
	var ops []*Term
	if len(args) > 1 {
		sl := e.toTerm(args[1], c.Args[1].Type())
		elems, ok2 := e.literalSliceElems(sl, SIface)
		if !ok2 {
			return Fresh("fmt", SString), nil
		}
		ops = elems
	}
	if !ok {
		return Fresh("fmt", SString), nil
	}
	if opaqueStrings {
		// only the %w operands matter; the text is an unknown (opaque) string
		var wrapped []*Term
		k := 0
		for i := 0; i+1 < len(format); i++ {
			if format[i] != '%' {
				continue
			}
			i++
			if format[i] == '%' {
				continue
			}
			if k < len(ops) && format[i] == 'w' {
				wrapped = append(wrapped, ops[k])
			}
			k++
		}
		return Fresh("fmt", sortOf(types.Typ[types.String])), wrapped
	}
	var parts []*Term
	var wrapped []*Term
	lit := strings.Builder{}
	flush := func() {
		if lit.Len() > 0 {
			parts = append(parts, StrLit(lit.String()))
			lit.Reset()
		}
	}
	k := 0
	for i := 0; i < len(format); i++ {
		ch := format[i]
		if ch != '%' {
			lit.WriteByte(ch)
			continue
		}
		i++
		if i >= len(format) {
			break
		}
		if format[i] == '%' {
			lit.WriteByte('%')
			continue
		}
		verb := format[i]
		if k >= len(ops) {
			lit.WriteString("%!" + string(verb) + "(MISSING)")
			continue
		}
		op := ops[k]
		k++
		flush()
		parts = append(parts, e.fmtOperand(op, verb))
		if verb == 'w' {
			wrapped = append(wrapped, op)
		}
	}
	flush()
	// fold adjacent literals
	var folded []*Term
	for _, pt := range parts {
		if len(folded) > 0 {
			if a, ok := strLitValue(folded[len(folded)-1]); ok {
				if b, ok := strLitValue(pt); ok {
					folded[len(folded)-1] = StrLit(a + b)
					continue
				}
			}
		}
		folded = append(folded, pt)
	}
	parts = folded
	switch len(parts) {
	case 0:
		return StrLit(""), wrapped
	case 1:
		return parts[0], wrapped
	}
	return mk("str.++", SString, parts...), wrapped
}

func (e *Exec) fmtOperand(op *Term, verb byte) *Term {
	// op is an Iface; decide by static tag when known
	if tag, ok := intVal(ITag(op)); ok && tag > 0 && int(tag) <= len(typeTagList) {
		t := typeTagList[tag-1]
		if t != nil {
			if b, ok := t.Underlying().(*types.Basic); ok {
				switch {
				case b.Info()&types.IsString != 0:
					return Unbox(IVal(op), SString)
				case b.Info()&types.IsInteger != 0:
					v := IVal(op)
					if _, named := t.(*types.Named); named {
						return sfn("m_fmtNamedInt", SString, v) // may have a String method
					}
					return Ite(Ge(v, IntLit(0)), mk("str.from_int", SString, v), mk("str.++", SString, StrLit("-"), mk("str.from_int", SString, Sub(IntLit(0), v))))
				}
			}
		}
	}
	if verb == 'w' || verb == 'v' || verb == 's' {
		return sfn("m_fmtv", SString, op)
	}
	return sfn("m_fmtv", SString, op)
}

// multierrorAppend: A-MULTIERR.
func (e *Exec) multierrorAppend(c *ssa.CallCommon, args []Val) Val {
	errIn := e.toTerm(args[0], c.Args[0].Type())
	xs := e.toTerm(args[1], c.Args[1].Type())
	meT := c.Signature().Results().At(0).Type() // *multierror.Error
	st := meT.Underlying().(*types.Pointer).Elem()
	errorsIdx := -1
	ss := st.Underlying().(*types.Struct)
	for i := 0; i < ss.NumFields(); i++ {
		if ss.Field(i).Name() == "Errors" {
			errorsIdx = i
		}
	}
	tagME := tagOf(meT)
	isME := Eq(ITag(errIn), tagME)
	// result object: the existing *Error when err is one (non-nil pointer), else a fresh one
	fresh := e.alloc()
	e.assumeZeroStruct(fresh, st)
	res := Ite(And(isME, Neq(IVal(errIn), IntLit(0))), IVal(errIn), fresh)
	loc := &Loc{Kind: LField, Ref: res, Struct: st, Field: errorsIdx, Type: ss.Field(errorsIdx).Type()}
	cur := e.load(loc).(*Term)
	// base list: existing errors, or [err] when err is a non-nil non-multierror
	other := And(Neq(ITag(errIn), IntLit(0)), Not(isME))
	saveReach := e.curReach
	// append err itself when it is a foreign error
	e.curReach = And(saveReach, other)
	withOther := e.appendElems(cur, []*Term{errIn}, SIface)
	e.curReach = saveReach
	// merge state effect of the conditional append is already guarded through Ite in appendElems? appendElems writes
	// unconditionally, so redo properly with state merge:
	_ = withOther
	unsupported("multierror.Append model requires structured append; see multierrorAppend2")
	_ = xs
	return nil
}

func init() {
	models["github.com/hashicorp/go-multierror.Append"].Apply = func(e *Exec, f *ssa.Function, c *ssa.CallCommon, args []Val) Val {
		return e.multierrorAppend2(c, args)
	}
}

// multierrorAppend2 models the cases used in this repository: err is a (possibly nil) *multierror.Error held in an
// error interface or pointer, and the variadic errors are either a literal list of non-nil non-multierror values or a
// whole slice (`xs...`). The returned *Error is the input object when non-nil, else fresh; Errors grows by the
// non-nil arguments in order.
func (e *Exec) multierrorAppend2(c *ssa.CallCommon, args []Val) Val {
	errIn := e.toTerm(args[0], c.Args[0].Type())
	xs := e.toTerm(args[1], c.Args[1].Type())
	meT := c.Signature().Results().At(0).Type()
	st := meT.Underlying().(*types.Pointer).Elem()
	ss := st.Underlying().(*types.Struct)
	errorsIdx := -1
	for i := 0; i < ss.NumFields(); i++ {
		if ss.Field(i).Name() == "Errors" {
			errorsIdx = i
		}
	}
	tagME := tagOf(meT)
	isME := And(Eq(ITag(errIn), tagME), Neq(IVal(errIn), IntLit(0)))
	isNil := Or(Eq(ITag(errIn), IntLit(0)), And(Eq(ITag(errIn), tagME), Eq(IVal(errIn), IntLit(0))))
	// foreign non-nil error as first argument: not used in this repository
	e.oblige("pre", "multierror.Append:first-arg-is-multierror-or-nil", Or(isME, isNil), []string{"C08"}, "model restriction")
	fresh := e.alloc()
	e.assume(Implies(e.guard(), Eq(RType(fresh), tagOf(st))))
	e.assumeZeroStruct(fresh, st)
	res := Ite(isME, IVal(errIn), fresh)
	loc := &Loc{Kind: LField, Ref: res, Struct: st, Field: errorsIdx, Type: ss.Field(errorsIdx).Type()}
	cur := e.load(loc).(*Term)
	var out *Term
	if elems, ok := e.literalSliceElems(xs, SIface); ok {
		// literal list: each must be a non-nil, non-multierror error for the simple model
		for _, x := range elems {
			e.oblige("pre", "multierror.Append:arg-plain-error", And(Neq(ITag(x), IntLit(0)), Neq(ITag(x), tagME)), []string{"C08"}, "model restriction")
		}
		out = e.appendElems(cur, elems, SIface)
	} else {
		// whole slice: elements assumed non-nil plain errors (they come out of another multierror's list)
		out = e.appendSlice(cur, xs, SIface)
		e.root().Assumed["A-MULTIERR: elements of a spliced error list are non-nil plain errors"] = true
	}
	e.store(loc, out)
	return res
}

func (r *Exec) noteGlobal(g *ssa.Global, c *Term) {
	if r.inlineOf != nil {
		r.root().noteGlobal(g, c)
		return
	}
	if r.globalsSeen == nil {
		r.globalsSeen = map[*ssa.Global]*Term{}
	}
	if _, ok := r.globalsSeen[g]; ok {
		return
	}
	r.globalsSeen[g] = c
	for _, f := range globalFacts(r.P, g, c) {
		r.assumes = append(r.assumes, f)
	}
}

// globalFacts derives facts about package-level error sentinels and constant-like globals from the package
// initialiser: `var X = errors.New(..)` are non-nil, pairwise distinct, wrap only themselves; `fmt.Errorf("%w", Y)`
// wraps Y.
func globalFacts(p *Program, g *ssa.Global, c *Term) []*Term {
	var facts []*Term
	if isAntlrPkg(g.Pkg.Pkg.Path()) {
		// A-ANTLR-RT: pointer-typed package-level objects of the runtime (ParseTreeWalkerDefault = NewParseTreeWalker())
		// are non-nil; the runtime's initialiser is not loaded from source
		if _, isPtr := g.Type().(*types.Pointer).Elem().Underlying().(*types.Pointer); isPtr {
			facts = append(facts, Neq(c, IntLit(0)))
		}
	}
	init := g.Pkg.Func("init")
	if init == nil {
		return facts
	}
	for _, b := range init.Blocks {
		for _, in := range b.Instrs {
			st, ok := in.(*ssa.Store)
			if !ok || st.Addr != ssa.Value(g) {
				continue
			}
			call, ok := st.Val.(*ssa.Call)
			if !ok {
				continue
			}
			callee, ok := call.Call.Value.(*ssa.Function)
			if !ok {
				continue
			}
			if antlrConstructor(callee) && c.Sort.Base() == SInt {
				// A-ANTLR-RT: a package-level object of the runtime built by its constructor (ParseTreeWalkerDefault) is non-nil
				facts = append(facts, Neq(c, IntLit(0)))
				continue
			}
			switch fullName(callee) {
			case "errors.New":
				id := int64(900000 + globalIndex(g))
				facts = append(facts, Eq(c, MkIface(namedTag("errors.errorString"), Sub(IntLit(0), IntLit(id)))))
				bt := BoundVar("t", SIface)
				facts = append(facts, Forall([]*Term{bt}, Eq(sfn("wraps", SBool, c, bt), Eq(bt, c)), []*Term{sfn("wraps", SBool, c, bt)}))
			case "fmt.Errorf":
				id := int64(900000 + globalIndex(g))
				facts = append(facts, Eq(c, MkIface(namedTag("fmt.wrapError"), Sub(IntLit(0), IntLit(id)))))
				// operands: look for globals loaded into the varargs
				var wrapped []*Term
				for _, b2 := range init.Blocks {
					for _, in2 := range b2.Instrs {
						if mi, ok := in2.(*ssa.MakeInterface); ok {
							_ = mi
						}
						if u, ok := in2.(*ssa.UnOp); ok {
							if g2, ok := u.X.(*ssa.Global); ok && g2 != g && u.Block() == call.Block() && types.Identical(g2.Type().(*types.Pointer).Elem(), types.Universe.Lookup("error").Type()) {
								if usedByCall(u, call) {
									c2 := Const(globalComp(g2.Pkg.Pkg.Name(), g2.Name()), SIface)
									wrapped = append(wrapped, c2)
									facts = append(facts, globalFacts(p, g2, c2)...)
								}
							}
						}
					}
				}
				bt := BoundVar("t", SIface)
				w := Eq(bt, c)
				for _, x := range wrapped {
					w = Or(w, sfn("wraps", SBool, x, bt))
				}
				facts = append(facts, Forall([]*Term{bt}, Eq(sfn("wraps", SBool, c, bt), w), []*Term{sfn("wraps", SBool, c, bt)}))
			}
		}
	}
	return facts
}

var globalIdx = map[*ssa.Global]int{}

func globalIndex(g *ssa.Global) int {
	if i, ok := globalIdx[g]; ok {
		return i
	}
	// stable index from the name
	h := 0
	for _, ch := range g.Pkg.Pkg.Path() + "." + g.Name() {
		h = (h*131 + int(ch)) % 1000003
	}
	globalIdx[g] = h
	return h
}

// usedByCall: value u flows (through MakeInterface / ChangeInterface and a varargs store) into call.
func usedByCall(u ssa.Value, call *ssa.Call) bool {
	refs := u.Referrers()
	if refs == nil {
		return false
	}
	for _, r := range *refs {
		switch x := r.(type) {
		case *ssa.MakeInterface:
			if usedByCall(x, call) {
				return true
			}
		case *ssa.ChangeInterface:
			if usedByCall(x, call) {
				return true
			}
		case *ssa.Store:
			if x.Val != u {
				continue
			}
			if ia, ok := x.Addr.(*ssa.IndexAddr); ok {
				if al, ok := ia.X.(*ssa.Alloc); ok {
					// the varargs array is sliced and passed to call
					if arefs := al.Referrers(); arefs != nil {
						for _, r3 := range *arefs {
							if sl, ok := r3.(*ssa.Slice); ok {
								for _, a := range call.Call.Args {
									if a == ssa.Value(sl) {
										return true
									}
								}
							}
						}
					}
				}
			}
		}
	}
	return false
}

var _ = constant.MakeInt64
