package main

// Go type -> SMT sort mapping, zero values, datatypes for by-value structs, type tags.

import (
	"fmt"
	"go/types"
	"strings"
)

const preambleCommon = `(declare-datatypes ((Slice 0)) (((mk_slice (s_arr Int) (s_off Int) (s_len Int) (s_cap Int)))))
(declare-datatypes ((Iface 0)) (((mk_iface (i_tag Int) (i_val Int)))))
`

var (
	nilSlice = mk("mk_slice", SSlice, IntLit(0), IntLit(0), IntLit(0), IntLit(0))
	nilIface = mk("mk_iface", SIface, IntLit(0), IntLit(0))
)

func MkSlice(arr, off, ln, cp *Term) *Term { return mk("mk_slice", SSlice, arr, off, ln, cp) }
func SArr(s *Term) *Term {
	if s.Op == "mk_slice" {
		return s.Args[0]
	}
	return mk("s_arr", SInt, s)
}
func SOff(s *Term) *Term {
	if s.Op == "mk_slice" {
		return s.Args[1]
	}
	return mk("s_off", SInt, s)
}
func SLen(s *Term) *Term {
	if s.Op == "mk_slice" {
		return s.Args[2]
	}
	return mk("s_len", SInt, s)
}
func SCap(s *Term) *Term {
	if s.Op == "mk_slice" {
		return s.Args[3]
	}
	return mk("s_cap", SInt, s)
}
func MkIface(tag, val *Term) *Term { return mk("mk_iface", SIface, tag, val) }
func ITag(i *Term) *Term {
	if i.Op == "mk_iface" {
		return i.Args[0]
	}
	return mk("i_tag", SInt, i)
}
func IVal(i *Term) *Term {
	if i.Op == "mk_iface" {
		return i.Args[1]
	}
	return mk("i_val", SInt, i)
}
func declRefFns() {
	if _, ok := TS.axioms["sub"]; ok {
		return
	}
	DeclFun("sub", []Sort{SInt, SInt}, SInt)
	DeclFun("sub_p", []Sort{SInt}, SInt)
	DeclFun("sub_f", []Sort{SInt}, SInt)
	DeclFun("root", []Sort{SInt}, SInt)
	r, f := BoundVar("r", SInt), BoundVar("f", SInt)
	s := mk("sub", SInt, r, f)
	AddAxiom("sub", Forall([]*Term{r, f}, And(Lt(s, IntLit(0)), Eq(mk("sub_p", SInt, s), r), Eq(mk("sub_f", SInt, s), f),
		Eq(mk("root", SInt, s), mk("root", SInt, r))), []*Term{s}))
	r2 := BoundVar("r", SInt)
	AddAxiom("root", Forall([]*Term{r2}, Implies(Ge(r2, IntLit(0)), Eq(mk("root", SInt, r2), r2)), []*Term{mk("root", SInt, r2)}))
}

func SubRef(r *Term, fid int) *Term { declRefFns(); return mk("sub", SInt, r, IntLit(int64(fid))) }
func RootOf(r *Term) *Term          { declRefFns(); return mk("root", SInt, r) }

// ---------- sorts ----------

type structInfo struct {
	sortName string
	fields   []*types.Var
	ctor     string
}

var structInfos = map[string]*structInfo{}

func typeKey(t types.Type) string {
	t = types.Unalias(t)
	return types.TypeString(t, func(p *types.Package) string { return p.Path() })
}

func shortTypeName(t types.Type) string {
	s := types.TypeString(t, func(p *types.Package) string { return p.Name() })
	r := strings.NewReplacer(" ", "_", "{", "<", "}", ">", ";", ",", "*", "P", "[", "L", "]", "J", "(", "<", ")", ">", "\"", "")
	return r.Replace(s)
}

func sortOf(t types.Type) Sort {
	switch u := t.Underlying().(type) {
	case *types.Basic:
		switch {
		case u.Info()&types.IsBoolean != 0:
			return SBool
		case u.Info()&types.IsString != 0:
			if opaqueStrings {
				return aliasSort("OStr.")
			}
			return SString
		case u.Kind() == types.UntypedNil, u.Kind() == types.UnsafePointer:
			return SInt
		default:
			return SInt // integers, floats (treated exactly; see A-MATH)
		}
	case *types.Pointer:
		if n, ok := u.Elem().(*types.Named); ok {
			if _, isStruct := n.Underlying().(*types.Struct); isStruct {
				a := aliasSort("P." + n.Obj().Pkg().Name() + "_" + n.Obj().Name() + ".")
				if _, ok := aliasTags[a]; !ok {
					aliasTags[a] = tagOf(u.Elem())
				}
				return a
			}
		}
		return SInt
	case *types.Map:
		// a named map type and its underlying type denote the same objects (values convert implicitly): one sort, one tag
		nm := shortTypeName(u)
		nm = strings.NewReplacer(".", "_", "/", "_").Replace(nm)
		a := aliasSort("M." + nm + ".")
		if _, ok := aliasTags[a]; !ok {
			aliasTags[a] = tagOf(u)
		}
		return a
	case *types.Chan, *types.Signature:
		return SInt
	case *types.Slice:
		return SSlice
	case *types.Interface:
		return SIface
	case *types.Struct:
		return Sort(structDT(t).sortName)
	case *types.Array:
		return ArraySort(SInt, sortOf(u.Elem()))
	case *types.Tuple:
		return SInt
	case *types.TypeParam:
		return SInt
	}
	return SInt
}

// aliasTags: allocation type tag of the objects an alias-sorted reference points to.
var aliasTags = map[Sort]*Term{}

func aliasSort(name string) Sort {
	srt := Sort(name)
	if _, ok := aliasSorts[srt]; !ok {
		aliasSorts[srt] = SInt
		DefineDatatype(name, "(define-sort "+name+" () Int)")
	}
	return srt
}

func structDT(t types.Type) *structInfo {
	key := typeKey(t)
	if opaqueStrings {
		key = "opaque:" + key
	}
	if si, ok := structInfos[key]; ok {
		return si
	}
	st := t.Underlying().(*types.Struct)
	name := "S_" + shortTypeName(t)
	if opaqueStrings {
		name = "SO_" + shortTypeName(t)
	}
	if len(name) > 60 {
		name = fmt.Sprintf("%s_%d", name[:40], len(structInfos))
	}
	name = strings.Trim(smtName(name), "|")
	name = strings.NewReplacer("/", "_", "!", "_", "=", "_", ">", "_", "<", "_", ",", "_").Replace(name)
	si := &structInfo{sortName: name, ctor: "mk_" + name}
	structInfos[key] = si
	var sb strings.Builder
	fmt.Fprintf(&sb, "(declare-datatypes ((%s 0)) (((%s", name, si.ctor)
	for i := 0; i < st.NumFields(); i++ {
		f := st.Field(i)
		si.fields = append(si.fields, f)
		fmt.Fprintf(&sb, " (%s_%d %s)", name, i, sortOf(f.Type()))
	}
	if st.NumFields() == 0 {
		// SMT datatypes need no fields; fine
	}
	sb.WriteString("))))")
	DefineDatatype(name, sb.String())
	return si
}

func (si *structInfo) Mk(fields []*Term) *Term { return mk(si.ctor, Sort(si.sortName), fields...) }
func (si *structInfo) Get(v *Term, i int) *Term {
	if v.Op == si.ctor {
		return v.Args[i]
	}
	return mk(fmt.Sprintf("%s_%d", si.sortName, i), sortOf(si.fields[i].Type()), v)
}
func (si *structInfo) With(v *Term, i int, x *Term) *Term {
	fs := make([]*Term, len(si.fields))
	for j := range si.fields {
		if j == i {
			fs[j] = x
		} else {
			fs[j] = si.Get(v, j)
		}
	}
	return si.Mk(fs)
}

// opaqueStrings: strings are modelled as integers (an injective naming of strings); only equality is available.
// Enabled per function by the contract flag `opaque_strings` for code that only compares and stores strings.
var opaqueStrings bool

var strIDs = map[string]int64{"": 0}

// GoStr is the term for a Go string constant in the current string mode.
func GoStr(s string) *Term {
	if !opaqueStrings {
		return StrLit(s)
	}
	id, ok := strIDs[s]
	if !ok {
		id = int64(7000000 + len(strIDs))
		strIDs[s] = id
	}
	return IntLit(id)
}

func zeroOfSort(s Sort) *Term {
	if _, ok := aliasSorts[s]; ok {
		return IntLit(0)
	}
	switch s {
	case SInt:
		return IntLit(0)
	case SBool:
		return False
	case SString:
		return StrLit("")
	case SSlice:
		return nilSlice
	case SIface:
		return nilIface
	}
	if s.IsArray() {
		_, v := s.ArrayParts()
		return ConstArr(s, zeroOfSort(v))
	}
	for _, si := range structInfos {
		if Sort(si.sortName) == s {
			fs := make([]*Term, len(si.fields))
			for i, f := range si.fields {
				fs[i] = zeroOf(f.Type())
			}
			return si.Mk(fs)
		}
	}
	panic(Unsupported{Msg: "zero value of sort " + string(s)})
}

func zeroOf(t types.Type) *Term {
	if st, ok := t.Underlying().(*types.Struct); ok {
		si := structDT(t)
		fs := make([]*Term, st.NumFields())
		for i := range fs {
			fs[i] = zeroOf(st.Field(i).Type())
		}
		return si.Mk(fs)
	}
	if at, ok := t.Underlying().(*types.Array); ok {
		return ConstArr(sortOf(t), zeroOf(at.Elem()))
	}
	return zeroOfSort(sortOf(t))
}

// ---------- type tags for interfaces ----------

var (
	typeTags    = map[string]int{}
	typeTagList []types.Type
)

func tagOf(t types.Type) *Term {
	if t != nil {
		if m, ok := t.Underlying().(*types.Map); ok {
			t = m
		}
	}
	k := typeKey(t)
	if id, ok := typeTags[k]; ok {
		return IntLit(int64(id))
	}
	id := len(typeTags) + 1
	typeTags[k] = id
	typeTagList = append(typeTagList, t)
	return IntLit(int64(id))
}

// field ids for sub-references
var fieldIDs = map[string]int{}

func fieldID(structKey string, idx int) int {
	k := fmt.Sprintf("%s#%d", structKey, idx)
	if id, ok := fieldIDs[k]; ok {
		return id
	}
	id := len(fieldIDs) + 1
	fieldIDs[k] = id
	return id
}

// boxing of non-Int payloads in interfaces
func boxFn(s Sort) (string, string) {
	n := strings.NewReplacer("(", "_", ")", "_", " ", "_").Replace(string(s))
	box := DeclFun("box_"+n, []Sort{s}, SInt)
	unbox := DeclFun("unbox_"+n, []Sort{SInt}, s)
	if _, ok := TS.axioms[box]; !ok {
		x := BoundVar("x", s)
		AddInstAxiom(box, []*Term{x}, App(box, SInt, x), Eq(App(unbox, s, App(box, SInt, x)), x))
	}
	return box, unbox
}

func Box(v *Term) *Term {
	switch v.Sort.Base() {
	case SInt:
		return v
	case SBool:
		return Ite(v, IntLit(1), IntLit(0))
	}
	box, _ := boxFn(v.Sort)
	return App(box, SInt, v)
}

func Unbox(p *Term, s Sort) *Term {
	switch s.Base() {
	case SInt:
		return p
	case SBool:
		return Neq(p, IntLit(0))
	}
	box, unbox := boxFn(s)
	if p.Op == box {
		return p.Args[0]
	}
	return App(unbox, s, p)
}
