package main

// Term DAG and SMT-LIB printer.

import (
	"fmt"
	"sort"
	"strconv"
	"strings"
)

type Sort string

const (
	SInt    Sort = "Int"
	SBool   Sort = "Bool"
	SString Sort = "String"
	SSlice  Sort = "Slice"
	SIface  Sort = "Iface"
	SRegLan Sort = "RegLan"
)

func ArraySort(k, v Sort) Sort { return Sort("(Array " + string(k) + " " + string(v) + ")") }

// alias sorts: (define-sort alias () Int) used to keep heap components of different Go types apart.
var aliasSorts = map[Sort]Sort{}

// Base strips alias names from a sort.
func (s Sort) Base() Sort {
	if len(aliasSorts) == 0 {
		return s
	}
	if b, ok := aliasSorts[s]; ok {
		return b
	}
	str := string(s)
	if !strings.Contains(str, ".") {
		return s
	}
	for a, b := range aliasSorts {
		if strings.Contains(str, string(a)) {
			str = strings.ReplaceAll(str, string(a), string(b))
		}
	}
	return Sort(str)
}

func (s Sort) IsArray() bool { return strings.HasPrefix(string(s), "(Array ") }

// ArrayParts splits "(Array K V)" into K and V.
func (s Sort) ArrayParts() (Sort, Sort) {
	str := string(s)
	if !s.IsArray() {
		panic("not an array sort: " + str)
	}
	body := str[len("(Array ") : len(str)-1]
	// split at top-level space
	depth := 0
	for i, c := range body {
		switch c {
		case '(':
			depth++
		case ')':
			depth--
		case ' ':
			if depth == 0 {
				return Sort(body[:i]), Sort(body[i+1:])
			}
		}
	}
	panic("bad array sort " + str)
}

type Term struct {
	Op   string // SMT operator, or "" for leaves
	Name string // leaf: constant/literal text; for quantifiers: unused
	Args []*Term
	Sort Sort
	// quantifiers / lets
	Bound []*Term // bound variables (leaf terms with IsBound)
	Pats  [][]*Term
	id    int
	key   string
	flags uint8 // 1 = has free bound var
}

const flagHasBound = 1

type TermStore struct {
	byKey map[string]*Term
	next  int
	// declarations of uninterpreted constants and functions: name -> decl line
	decls     map[string]string
	declOrder []string
	// datatypes (struct sorts)
	datatypes     map[string]string
	datatypeOrder []string
	// recursive function definitions
	recFuns     map[string]*RecFun
	recFunOrder []string
	fresh       int
	axioms      map[string]*Term // global axioms keyed by the function symbol that triggers their inclusion
	axiomOrder  []string
	instAxioms  map[string]*InstAxiom // axioms of the form forall xs. body(f(xs)), instantiated at closed occurrences
}

type InstAxiom struct {
	Vars  []*Term
	Body  *Term
	Pat   *Term
	Limit int // >0: instantiate only during the first Limit rounds (bounded unfolding of recursive definitions)
}

// SetInstAxiom (re)registers an instantiable axiom, e.g. the defining equation of a specification function.
func SetInstAxiom(symbol string, vars []*Term, pat, body *Term, limit int) {
	symbol = smtName(symbol)
	if _, ok := TS.axioms[symbol]; !ok {
		TS.axiomOrder = append(TS.axiomOrder, symbol)
	}
	TS.instAxioms[symbol] = &InstAxiom{Vars: vars, Body: body, Pat: pat, Limit: limit}
	TS.axioms[symbol] = Forall(vars, body, []*Term{pat})
}

type RecFun struct {
	Name   string
	Params []*Term
	Ret    Sort
	Body   *Term
	Deps   []string // other recfuns referenced
}

func NewTermStore() *TermStore {
	return &TermStore{byKey: map[string]*Term{}, decls: map[string]string{}, datatypes: map[string]string{}, recFuns: map[string]*RecFun{}, axioms: map[string]*Term{}, instAxioms: map[string]*InstAxiom{}}
}

var TS = NewTermStore()

func (ts *TermStore) intern(t *Term) *Term {
	var sb strings.Builder
	sb.WriteString(t.Op)
	sb.WriteByte('|')
	sb.WriteString(t.Name)
	sb.WriteByte('|')
	sb.WriteString(string(t.Sort))
	for _, a := range t.Args {
		sb.WriteByte(',')
		sb.WriteString(strconv.Itoa(a.id))
	}
	if len(t.Bound) > 0 {
		sb.WriteByte(';')
		for _, b := range t.Bound {
			sb.WriteString(strconv.Itoa(b.id))
			sb.WriteByte(',')
		}
		for _, p := range t.Pats {
			sb.WriteByte('/')
			for _, q := range p {
				sb.WriteString(strconv.Itoa(q.id))
				sb.WriteByte(',')
			}
		}
	}
	k := sb.String()
	if e, ok := ts.byKey[k]; ok {
		return e
	}
	ts.next++
	t.id = ts.next
	t.key = k
	for _, a := range t.Args {
		if a.flags&flagHasBound != 0 {
			t.flags |= flagHasBound
		}
	}
	ts.byKey[k] = t
	return t
}

// ---------- constructors ----------

func mk(op string, sort Sort, args ...*Term) *Term {
	for i, a := range args {
		if a == nil {
			panic(fmt.Sprintf("nil arg %d to %s", i, op))
		}
	}
	return TS.intern(&Term{Op: op, Args: args, Sort: sort})
}

func leaf(name string, sort Sort) *Term {
	return TS.intern(&Term{Name: name, Sort: sort})
}

func IntLit(n int64) *Term {
	if n < 0 {
		return mk("-", SInt, leaf(strconv.FormatInt(-n, 10), SInt))
	}
	return leaf(strconv.FormatInt(n, 10), SInt)
}

func BigIntLit(s string) *Term {
	if strings.HasPrefix(s, "-") {
		return mk("-", SInt, leaf(s[1:], SInt))
	}
	return leaf(s, SInt)
}

var (
	True  = leaf("true", SBool)
	False = leaf("false", SBool)
)

func BoolLit(b bool) *Term {
	if b {
		return True
	}
	return False
}

// StrLit builds an SMT-LIB string literal from a Go string (Unicode code points, escapes via \u{..}).
func StrLit(s string) *Term {
	var sb strings.Builder
	sb.WriteByte('"')
	for _, r := range s {
		switch {
		case r == '"':
			sb.WriteString(`""`)
		case r == '\\':
			sb.WriteString(`\u{5c}`)
		case r >= 0x20 && r < 0x7f:
			sb.WriteRune(r)
		default:
			fmt.Fprintf(&sb, `\u{%x}`, r)
		}
	}
	sb.WriteByte('"')
	return leaf(sb.String(), SString)
}

// Const declares (once) and returns an uninterpreted constant.
func Const(name string, sort Sort) *Term {
	name = smtName(name)
	if d, ok := TS.decls[name]; !ok {
		TS.decls[name] = fmt.Sprintf("(declare-fun %s () %s)", name, sort)
		TS.declOrder = append(TS.declOrder, name)
	} else if !strings.HasSuffix(d, " "+string(sort)+")") {
		panic("redeclared constant with different sort: " + name + " " + d + " vs " + string(sort))
	}
	return leaf(name, sort)
}

func Fresh(prefix string, sort Sort) *Term {
	TS.fresh++
	return Const(fmt.Sprintf("%s!%d", prefix, TS.fresh), sort)
}

// BoundVar creates a bound variable leaf (not declared).
func BoundVar(name string, sort Sort) *Term {
	TS.fresh++
	t := TS.intern(&Term{Name: smtName(fmt.Sprintf("%s?%d", name, TS.fresh)), Sort: sort, Op: "", flags: flagHasBound})
	t.flags |= flagHasBound
	return t
}

// DeclFun declares an uninterpreted function (once).
func DeclFun(name string, args []Sort, ret Sort) string {
	name = smtName(name)
	if _, ok := TS.decls[name]; !ok {
		as := make([]string, len(args))
		for i, a := range args {
			as[i] = string(a)
		}
		TS.decls[name] = fmt.Sprintf("(declare-fun %s (%s) %s)", name, strings.Join(as, " "), ret)
		TS.declOrder = append(TS.declOrder, name)
	}
	return name
}

func App(fn string, ret Sort, args ...*Term) *Term { return mk(fn, ret, args...) }

func smtName(s string) string {
	ok := true
	for _, c := range s {
		if !(c >= 'a' && c <= 'z' || c >= 'A' && c <= 'Z' || c >= '0' && c <= '9' || strings.ContainsRune("_.$!?@~^&*+-/<>=%", c)) {
			ok = false
			break
		}
	}
	if ok && len(s) > 0 && !(s[0] >= '0' && s[0] <= '9') {
		return s
	}
	return "|" + strings.ReplaceAll(strings.ReplaceAll(s, "|", "!"), "\\", "/") + "|"
}

// ---------- boolean / arithmetic with light simplification ----------

func Not(a *Term) *Term {
	switch {
	case a == True:
		return False
	case a == False:
		return True
	case a.Op == "not":
		return a.Args[0]
	}
	return mk("not", SBool, a)
}

func And(as ...*Term) *Term {
	var out []*Term
	seen := map[int]bool{}
	for _, a := range as {
		if a == True {
			continue
		}
		if a == False {
			return False
		}
		if a.Op == "and" {
			for _, b := range a.Args {
				if !seen[b.id] {
					seen[b.id] = true
					out = append(out, b)
				}
			}
			continue
		}
		if !seen[a.id] {
			seen[a.id] = true
			out = append(out, a)
		}
	}
	for _, o := range out {
		if o.Op == "not" && seen[o.Args[0].id] {
			return False
		}
	}
	switch len(out) {
	case 0:
		return True
	case 1:
		return out[0]
	}
	return mk("and", SBool, out...)
}

func Or(as ...*Term) *Term {
	var out []*Term
	seen := map[int]bool{}
	for _, a := range as {
		if a == False {
			continue
		}
		if a == True {
			return True
		}
		if a.Op == "or" {
			for _, b := range a.Args {
				if !seen[b.id] {
					seen[b.id] = true
					out = append(out, b)
				}
			}
			continue
		}
		if !seen[a.id] {
			seen[a.id] = true
			out = append(out, a)
		}
	}
	for _, o := range out {
		if o.Op == "not" && seen[o.Args[0].id] {
			return True
		}
	}
	switch len(out) {
	case 0:
		return False
	case 1:
		return out[0]
	}
	return mk("or", SBool, out...)
}

func Implies(a, b *Term) *Term {
	if a == True {
		return b
	}
	if a == False || b == True {
		return True
	}
	if b == False {
		return Not(a)
	}
	return mk("=>", SBool, a, b)
}

func Iff(a, b *Term) *Term { return Eq(a, b) }

func Eq(a, b *Term) *Term {
	if a == b {
		return True
	}
	if a.Sort != b.Sort && a.Sort.Base() != b.Sort.Base() {
		panic(fmt.Sprintf("Eq sort mismatch: %s : %s vs %s : %s", a, a.Sort, b, b.Sort))
	}
	if isLit(a) && isLit(b) {
		return False // distinct literals (interned)
	}
	if a.Sort == SBool {
		if a == True {
			return b
		}
		if b == True {
			return a
		}
		if a == False {
			return Not(b)
		}
		if b == False {
			return Not(a)
		}
		if isConnective(a) || isConnective(b) {
			if eq, ok := PropEquivalent(a, b, 8); ok && eq {
				return True
			}
		}
	}
	if a.id > b.id {
		a, b = b, a
	}
	return mk("=", SBool, a, b)
}

func Neq(a, b *Term) *Term { return Not(Eq(a, b)) }

func isLit(t *Term) bool {
	if t.Op == "-" && len(t.Args) == 1 && t.Args[0].Op == "" {
		return isLit(t.Args[0])
	}
	if t.Op != "" || t.Name == "" {
		return false
	}
	c := t.Name[0]
	return (c >= '0' && c <= '9') || c == '"' || t == True || t == False
}

func intVal(t *Term) (int64, bool) {
	if t.Sort != SInt && t.Sort.Base() != SInt {
		return 0, false
	}
	if t.Op == "-" && len(t.Args) == 1 {
		v, ok := intVal(t.Args[0])
		return -v, ok
	}
	if t.Op == "" && t.Name != "" && t.Name[0] >= '0' && t.Name[0] <= '9' {
		v, err := strconv.ParseInt(t.Name, 10, 64)
		return v, err == nil
	}
	return 0, false
}

func Ite(c, a, b *Term) *Term {
	if c == True {
		return a
	}
	if c == False {
		return b
	}
	if a == b {
		return a
	}
	if a.Sort != b.Sort && a.Sort.Base() != b.Sort.Base() {
		panic(fmt.Sprintf("Ite sort mismatch: %s vs %s (%s | %s)", a.Sort, b.Sort, a, b))
	}
	if a.Sort == SBool {
		if a == True && b == False {
			return c
		}
		if a == False && b == True {
			return Not(c)
		}
		if a == True {
			return Or(c, b)
		}
		if b == False {
			return And(c, a)
		}
		if a == False {
			return And(Not(c), b)
		}
		if b == True {
			return Or(Not(c), a)
		}
	}
	return mk("ite", a.Sort, c, a, b)
}

func Add(a, b *Term) *Term {
	if x, ok := intVal(a); ok {
		if y, ok := intVal(b); ok {
			return IntLit(x + y)
		}
		if x == 0 {
			return b
		}
	}
	if y, ok := intVal(b); ok && y == 0 {
		return a
	}
	return mk("+", SInt, a, b)
}

func Sub(a, b *Term) *Term {
	if x, ok := intVal(a); ok {
		if y, ok := intVal(b); ok {
			return IntLit(x - y)
		}
	}
	if y, ok := intVal(b); ok && y == 0 {
		return a
	}
	return mk("-", SInt, a, b)
}

func Mul(a, b *Term) *Term {
	if x, ok := intVal(a); ok {
		if y, ok := intVal(b); ok {
			return IntLit(x * y)
		}
	}
	return mk("*", SInt, a, b)
}
func Lt(a, b *Term) *Term {
	if x, ok := intVal(a); ok {
		if y, ok := intVal(b); ok {
			return BoolLit(x < y)
		}
	}
	return mk("<", SBool, a, b)
}
func Le(a, b *Term) *Term {
	if x, ok := intVal(a); ok {
		if y, ok := intVal(b); ok {
			return BoolLit(x <= y)
		}
	}
	return mk("<=", SBool, a, b)
}
func Gt(a, b *Term) *Term { return Lt(b, a) }
func Ge(a, b *Term) *Term { return Le(b, a) }

func Select(arr, idx *Term) *Term {
	_, v := arr.Sort.ArrayParts()
	// read-over-write simplification for syntactically equal / literal-distinct indices
	for arr.Op == "store" {
		if arr.Args[1] == idx {
			return arr.Args[2]
		}
		if isLit(arr.Args[1]) && isLit(idx) {
			arr = arr.Args[0]
			continue
		}
		break
	}
	if arr.Op == "constarr" {
		return arr.Args[0]
	}
	return mk("select", v, arr, idx)
}

func Store(arr, idx, val *Term) *Term {
	_, v := arr.Sort.ArrayParts()
	if val.Sort != v && val.Sort.Base() != v.Base() {
		panic(fmt.Sprintf("Store sort mismatch: array %s value %s : %s", arr.Sort, val, val.Sort))
	}
	if arr.Op == "store" && arr.Args[1] == idx {
		arr = arr.Args[0]
	}
	return mk("store", arr.Sort, arr, idx, val)
}

// ConstArr builds ((as const (Array K V)) v).
func ConstArr(s Sort, v *Term) *Term { return mk("constarr", s, v) }

func patOK(t *Term) bool {
	switch t.Op {
	case "ite", "and", "or", "not", "=>", "=", "forall", "exists", "<", "<=", "+", "-", "*":
		return false
	}
	for _, a := range t.Args {
		if !patOK(a) {
			return false
		}
	}
	return true
}

func Forall(vars []*Term, body *Term, pats0 ...[]*Term) *Term {
	if body == True {
		return True
	}
	if len(vars) == 0 {
		return body
	}
	// keep only well-formed triggers: no connectives/arithmetic inside, every bound variable covered
	var pats [][]*Term
	for _, p := range pats0 {
		ok := len(p) > 0
		for _, q := range p {
			if !patOK(q) {
				ok = false
			}
		}
		if ok {
			for _, v := range vars {
				found := false
				for _, q := range p {
					if mentions(q, v) {
						found = true
					}
				}
				if !found {
					ok = false
				}
			}
		}
		if ok {
			pats = append(pats, p)
		}
	}
	vars, body, pats = canonBound(vars, body, pats)
	t := &Term{Op: "forall", Args: []*Term{body}, Sort: SBool, Bound: vars, Pats: pats}
	r := TS.intern(t)
	r.flags = 0
	if containsFreeBound(body, vars) {
		r.flags |= flagHasBound
	}
	return r
}

func Exists(vars []*Term, body *Term) *Term {
	if len(vars) == 0 {
		return body
	}
	vars, body, _ = canonBound(vars, body, nil)
	t := &Term{Op: "exists", Args: []*Term{body}, Sort: SBool, Bound: vars}
	r := TS.intern(t)
	r.flags = 0
	if containsFreeBound(body, vars) {
		r.flags |= flagHasBound
	}
	return r
}

func mentions(t, v *Term) bool {
	if t == v {
		return true
	}
	if t.flags&flagHasBound == 0 {
		return false
	}
	for _, a := range t.Args {
		if mentions(a, v) {
			return true
		}
	}
	return false
}

// quantDepth: nesting depth of quantifiers inside t (memoised).
var quantDepthMemo = map[int]int{}

func quantDepth(t *Term) int {
	if t.flags&flagHasBound == 0 && t.Op != "forall" && t.Op != "exists" {
		// closed terms may still contain quantifiers; fall through to the scan but memoise
	}
	if d, ok := quantDepthMemo[t.id]; ok {
		return d
	}
	d := 0
	for _, a := range t.Args {
		if x := quantDepth(a); x > d {
			d = x
		}
	}
	if t.Op == "forall" || t.Op == "exists" {
		d++
	}
	quantDepthMemo[t.id] = d
	return d
}

// canonBound renames the bound variables of a quantifier to canonical names determined by nesting depth, position and
// sort, so that alpha-equivalent formulas are the same term (solvers treat differently named binders as different
// atoms). Inner quantifiers have smaller depth numbers, so no capture can occur.
func canonBound(vars []*Term, body *Term, pats [][]*Term) ([]*Term, *Term, [][]*Term) {
	d := quantDepth(body)
	m := map[int]*Term{}
	nv := make([]*Term, len(vars))
	same := true
	for i, v := range vars {
		c := TS.intern(&Term{Name: fmt.Sprintf("q%d_%d", d, i), Sort: v.Sort, flags: flagHasBound})
		c.flags |= flagHasBound
		nv[i] = c
		if c != v {
			m[v.id] = c
			same = false
		}
	}
	if same {
		return vars, body, pats
	}
	nb := Subst(body, m)
	var np [][]*Term
	for _, p := range pats {
		var q []*Term
		for _, x := range p {
			q = append(q, Subst(x, m))
		}
		np = append(np, q)
	}
	return nv, nb, np
}

// containsFreeBound reports whether t mentions a bound variable not in vars.
func containsFreeBound(t *Term, vars []*Term) bool {
	if t.flags&flagHasBound == 0 {
		return false
	}
	bound := map[int]bool{}
	for _, v := range vars {
		bound[v.id] = true
	}
	var rec func(t *Term, bound map[int]bool) bool
	seen := map[int]bool{}
	rec = func(t *Term, bound map[int]bool) bool {
		if t.flags&flagHasBound == 0 {
			return false
		}
		if t.Op == "" {
			return !bound[t.id]
		}
		if seen[t.id] && len(t.Bound) == 0 {
			return false
		}
		if len(t.Bound) > 0 {
			nb := map[int]bool{}
			for k := range bound {
				nb[k] = true
			}
			for _, v := range t.Bound {
				nb[v.id] = true
			}
			return rec(t.Args[0], nb)
		}
		for _, a := range t.Args {
			if rec(a, bound) {
				return true
			}
		}
		seen[t.id] = true
		return false
	}
	return rec(t, bound)
}

// Subst replaces leaves (by id) according to m.
func Subst(t *Term, m map[int]*Term) *Term {
	cache := map[int]*Term{}
	var rec func(t *Term) *Term
	rec = func(t *Term) *Term {
		if r, ok := m[t.id]; ok {
			return r
		}
		if len(t.Args) == 0 {
			return t
		}
		if r, ok := cache[t.id]; ok {
			return r
		}
		changed := false
		na := make([]*Term, len(t.Args))
		for i, a := range t.Args {
			na[i] = rec(a)
			if na[i] != a {
				changed = true
			}
		}
		var r *Term
		if !changed {
			r = t
		} else if len(t.Bound) > 0 {
			var pats [][]*Term
			for _, p := range t.Pats {
				var np []*Term
				for _, q := range p {
					np = append(np, rec(q))
				}
				pats = append(pats, np)
			}
			if t.Op == "forall" {
				r = Forall(t.Bound, na[0], pats...)
			} else {
				r = Exists(t.Bound, na[0])
			}
		} else {
			r = rebuild(t, na)
		}
		cache[t.id] = r
		return r
	}
	return rec(t)
}

func rebuild(t *Term, na []*Term) *Term {
	switch t.Op {
	case "and":
		return And(na...)
	case "or":
		return Or(na...)
	case "not":
		return Not(na[0])
	case "=>":
		return Implies(na[0], na[1])
	case "=":
		return Eq(na[0], na[1])
	case "ite":
		return Ite(na[0], na[1], na[2])
	case "select":
		return Select(na[0], na[1])
	case "store":
		return Store(na[0], na[1], na[2])
	case "+":
		if len(na) == 2 {
			return Add(na[0], na[1])
		}
	case "-":
		if len(na) == 2 {
			return Sub(na[0], na[1])
		}
	case "<":
		return Lt(na[0], na[1])
	case "<=":
		return Le(na[0], na[1])
	}
	return TS.intern(&Term{Op: t.Op, Name: t.Name, Args: na, Sort: t.Sort})
}

func (t *Term) String() string {
	var sb strings.Builder
	printTerm(&sb, t, nil)
	s := sb.String()
	if len(s) > 400 {
		return s[:400] + "..."
	}
	return s
}

// ---------- printing ----------

func printTerm(sb *strings.Builder, t *Term, named map[int]string) {
	if named != nil {
		if n, ok := named[t.id]; ok {
			sb.WriteString(n)
			return
		}
	}
	switch {
	case t.Op == "":
		sb.WriteString(t.Name)
	case t.Op == "constarr":
		sb.WriteString("((as const ")
		sb.WriteString(string(t.Sort))
		sb.WriteString(") ")
		printTerm(sb, t.Args[0], nil) // cvc5 wants a syntactic value here
		sb.WriteString(")")
	case t.Op == "forall" || t.Op == "exists":
		sb.WriteString("(")
		sb.WriteString(t.Op)
		sb.WriteString(" (")
		for _, v := range t.Bound {
			fmt.Fprintf(sb, "(%s %s)", v.Name, v.Sort)
		}
		sb.WriteString(") ")
		if len(t.Pats) > 0 {
			sb.WriteString("(! ")
		}
		printLet(sb, t.Args[0], named)
		if len(t.Pats) > 0 {
			for _, p := range t.Pats {
				sb.WriteString(" :pattern (")
				for i, q := range p {
					if i > 0 {
						sb.WriteString(" ")
					}
					printTerm(sb, q, named)
				}
				sb.WriteString(")")
			}
			sb.WriteString(")")
		}
		sb.WriteString(")")
	case len(t.Args) == 0:
		sb.WriteString(t.Op)
	default:
		sb.WriteString("(")
		sb.WriteString(t.Op)
		for _, a := range t.Args {
			sb.WriteString(" ")
			printTerm(sb, a, named)
		}
		sb.WriteString(")")
	}
}

// printLet prints t with let-bindings for the subterms shared inside t (used for quantifier bodies and recursive
// function bodies, whose shared subterms mention bound variables and cannot be hoisted to top-level definitions).
// Inner quantifiers are treated as units here; they bind their own shared subterms when printed.
func printLet(sb *strings.Builder, t *Term, named map[int]string) {
	refs := map[int]int{}
	var order []*Term
	var visit func(x *Term)
	visit = func(x *Term) {
		if named != nil {
			if _, ok := named[x.id]; ok {
				return
			}
		}
		refs[x.id]++
		if refs[x.id] > 1 || len(x.Args) == 0 {
			return
		}
		if x.Op != "forall" && x.Op != "exists" {
			for _, a := range x.Args {
				visit(a)
			}
		}
		order = append(order, x)
	}
	visit(t)
	var shared []*Term
	for _, x := range order {
		if refs[x.id] > 1 && len(x.Args) > 0 && x != t && x.Op != "constarr" {
			shared = append(shared, x)
		}
	}
	if len(shared) == 0 {
		printTerm(sb, t, named)
		return
	}
	local := map[int]string{}
	for k, v := range named {
		local[k] = v
	}
	for _, x := range shared {
		name := fmt.Sprintf("l%d", x.id)
		fmt.Fprintf(sb, "(let ((%s ", name)
		printTerm(sb, x, local)
		sb.WriteString(")) ")
		local[x.id] = name
	}
	printTerm(sb, t, local)
	for range shared {
		sb.WriteString(")")
	}
}

// Script renders an SMT-LIB script asserting all of `asserts`, hoisting shared closed subterms
// into define-funs. Only the declarations actually used are emitted.
func Script(asserts0 []*Term, preamble string, opts ScriptOpts) string {
	// top-level conjunctions (also under an implication guard) are split into separate assertions
	var asserts []*Term
	var split func(t *Term)
	split = func(t *Term) {
		switch {
		case t.Op == "and":
			for _, a := range t.Args {
				split(a)
			}
		case t.Op == "=>" && t.Args[1].Op == "and":
			for _, a := range t.Args[1].Args {
				split(Implies(t.Args[0], a))
			}
		default:
			asserts = append(asserts, t)
		}
	}
	for _, a := range asserts0 {
		split(a)
	}
	// reference counting over the DAG
	refs := map[int]int{}
	var order []*Term
	var visit func(t *Term)
	visit = func(t *Term) {
		refs[t.id]++
		if refs[t.id] > 1 {
			return
		}
		for _, a := range t.Args {
			visit(a)
		}
		for _, p := range t.Pats {
			for _, q := range p {
				visit(q)
			}
		}
		order = append(order, t)
	}
	usedRec := map[string]bool{}
	var work []*Term
	work = append(work, asserts...)
	for _, nt := range opts.Named {
		work = append(work, nt.T)
	}
	for i := 0; i < len(work); i++ {
		visit(work[i])
	}
	// find used recursive functions (transitively) so their bodies are scanned for decls too
	changed := true
	for changed {
		changed = false
		for _, t := range order {
			if t.Op != "" {
				if rf, ok := TS.recFuns[t.Op]; ok && !usedRec[t.Op] {
					usedRec[t.Op] = true
					changed = true
					visit(rf.Body)
				}
			}
		}
	}
	// global axioms triggered by used function symbols (closed under symbols the axioms themselves mention)
	var axiomTerms []*Term
	usedAx := map[string]bool{}
	round := 0
	for ch := true; ch; {
		ch = false
		round++
		syms := map[string]bool{}
		for _, t := range order {
			if t.Op != "" {
				syms[t.Op] = true
			}
		}
		for _, sym := range TS.axiomOrder {
			if !syms[sym] {
				continue
			}
			if ia, ok := TS.instAxioms[sym]; ok {
				// instantiate at closed applications found so far
				needQuant := false
				if ia.Limit > 0 && round > ia.Limit {
					continue
				}
				snapshot := order
				for _, t := range snapshot {
					if t.Op != sym || len(t.Args) != len(ia.Vars) {
						continue
					}
					if t.flags&flagHasBound != 0 {
						needQuant = true
						continue
					}
					key := fmt.Sprintf("%s@%d", sym, t.id)
					if usedAx[key] {
						continue
					}
					usedAx[key] = true
					m := map[int]*Term{}
					for i, v := range ia.Vars {
						m[v.id] = t.Args[i]
					}
					inst := Subst(ia.Body, m)
					axiomTerms = append(axiomTerms, inst)
					visit(inst)
					ch = true
				}
				if needQuant && !usedAx[sym] {
					usedAx[sym] = true
					ch = true
					axiomTerms = append(axiomTerms, TS.axioms[sym])
					visit(TS.axioms[sym])
				}
				continue
			}
			if !usedAx[sym] {
				usedAx[sym] = true
				ch = true
				axiomTerms = append(axiomTerms, TS.axioms[sym])
				visit(TS.axioms[sym])
			}
		}
	}
	var sb strings.Builder
	sb.WriteString(preamble)
	// datatypes
	usedDT := map[string]bool{}
	usedDecl := map[string]bool{}
	noteSort := func(s Sort) {
		for _, name := range TS.datatypeOrder {
			if strings.Contains(string(s), name) {
				usedDT[name] = true
			}
		}
	}
	for _, t := range order {
		noteSort(t.Sort)
		if t.Op == "" {
			if _, ok := TS.decls[t.Name]; ok {
				usedDecl[t.Name] = true
			}
		} else if _, ok := TS.decls[t.Op]; ok {
			usedDecl[t.Op] = true
		}
		for _, b := range t.Bound {
			noteSort(b.Sort)
		}
	}
	for _, name := range TS.declOrder {
		if usedDecl[name] {
			noteSort(Sort(TS.decls[name]))
		}
	}
	for name := range usedRec {
		rf := TS.recFuns[name]
		noteSort(rf.Ret)
		for _, p := range rf.Params {
			noteSort(p.Sort)
		}
	}
	// datatypes may reference each other: close transitively
	for ch := true; ch; {
		ch = false
		for _, name := range TS.datatypeOrder {
			if usedDT[name] {
				for _, other := range TS.datatypeOrder {
					if !usedDT[other] && strings.Contains(TS.datatypes[name], other) {
						usedDT[other] = true
						ch = true
					}
				}
			}
		}
	}
	// canonical order (independent of which functions were verified before in this process; the solvers are sensitive
	// to declaration order): alias sorts by name, then struct datatypes in creation order (dependencies first), then the
	// declarations by name
	var aliasNames []string
	for _, name := range TS.datatypeOrder {
		if usedDT[name] && strings.HasPrefix(TS.datatypes[name], "(define-sort ") {
			aliasNames = append(aliasNames, name)
		}
	}
	sort.Strings(aliasNames)
	for _, name := range aliasNames {
		sb.WriteString(TS.datatypes[name])
		sb.WriteString("\n")
	}
	for _, name := range TS.datatypeOrder {
		if usedDT[name] && !strings.HasPrefix(TS.datatypes[name], "(define-sort ") {
			sb.WriteString(TS.datatypes[name])
			sb.WriteString("\n")
		}
	}
	var declNames []string
	for name := range usedDecl {
		declNames = append(declNames, name)
	}
	sort.Strings(declNames)
	for _, name := range declNames {
		sb.WriteString(TS.decls[name])
		sb.WriteString("\n")
	}
	// hoist shared closed terms
	named := map[int]string{}
	emitRec := func() {
		var names []string
		for _, n := range TS.recFunOrder {
			if usedRec[n] {
				names = append(names, n)
			}
		}
		if len(names) == 0 {
			return
		}
		// one define-funs-rec block
		sb.WriteString("(define-funs-rec (\n")
		for _, n := range names {
			rf := TS.recFuns[n]
			fmt.Fprintf(&sb, "  (%s (", n)
			for _, p := range rf.Params {
				fmt.Fprintf(&sb, "(%s %s)", p.Name, p.Sort)
			}
			fmt.Fprintf(&sb, ") %s)\n", rf.Ret)
		}
		sb.WriteString(") (\n")
		for _, n := range names {
			rf := TS.recFuns[n]
			sb.WriteString("  ")
			printLet(&sb, rf.Body, nil)
			sb.WriteString("\n")
		}
		sb.WriteString("))\n")
	}
	emitRec()
	for _, t := range order {
		if t.Op == "" || t.flags&flagHasBound != 0 {
			continue
		}
		if refs[t.id] > 1 && len(t.Args) > 0 && !opts.NoHoist {
			name := fmt.Sprintf("n%d", t.id)
			fmt.Fprintf(&sb, "(define-fun %s () %s ", name, t.Sort)
			printTerm(&sb, shallow(t), named)
			sb.WriteString(")\n")
			named[t.id] = name
		}
	}
	for _, a := range axiomTerms {
		sb.WriteString("(assert ")
		printTerm(&sb, a, named)
		sb.WriteString(")\n")
	}
	for _, a := range asserts {
		sb.WriteString("(assert ")
		printTerm(&sb, a, named)
		sb.WriteString(")\n")
	}
	for _, nt := range opts.Named {
		fmt.Fprintf(&sb, "(define-fun %s () %s ", nt.Name, nt.T.Sort)
		printTerm(&sb, nt.T, named)
		sb.WriteString(")\n")
	}
	return sb.String()
}

type ScriptOpts struct {
	NoHoist bool
	Named   []NamedTerm // extra closed terms to define (for get-value)
}

type NamedTerm struct {
	Name string
	T    *Term
}

// shallow returns t itself; printTerm consults `named` for children only because the term itself
// is not yet in `named` when it is being defined.
func shallow(t *Term) *Term { return t }

// AddAxiom registers a closed axiom that is included in every script mentioning `symbol`.
func AddAxiom(symbol string, ax *Term) {
	symbol = smtName(symbol)
	if _, ok := TS.axioms[symbol]; ok {
		return
	}
	TS.axioms[symbol] = ax
	TS.axiomOrder = append(TS.axiomOrder, symbol)
}

// AddInstAxiom registers forall vars. body with trigger pat = symbol(vars). Scripts instantiate it at every closed
// application of symbol and keep the quantified form only if an application occurs under a binder.
func AddInstAxiom(symbol string, vars []*Term, pat, body *Term) {
	symbol = smtName(symbol)
	if _, ok := TS.axioms[symbol]; ok {
		return
	}
	TS.instAxioms[symbol] = &InstAxiom{Vars: vars, Body: body, Pat: pat}
	AddAxiom(symbol, Forall(vars, body, []*Term{pat}))
}

// DefineDatatype registers a datatype declaration text under its sort name.
func DefineDatatype(name string, decl string) {
	if _, ok := TS.datatypes[name]; ok {
		return
	}
	TS.datatypes[name] = decl
	TS.datatypeOrder = append(TS.datatypeOrder, name)
}

func sortedKeys[V any](m map[string]V) []string {
	ks := make([]string, 0, len(m))
	for k := range m {
		ks = append(ks, k)
	}
	sort.Strings(ks)
	return ks
}

// ---------- small propositional simplifier ----------

func isConnective(t *Term) bool {
	switch t.Op {
	case "and", "or", "not", "=>":
		return true
	case "ite", "=":
		return t.Sort == SBool && t.Args[len(t.Args)-1].Sort == SBool && t.Args[0].Sort == SBool
	}
	return false
}

func collectAtoms(t *Term, atoms map[int]*Term, limit int) bool {
	if t == True || t == False {
		return true
	}
	if isConnective(t) {
		for _, a := range t.Args {
			if !collectAtoms(a, atoms, limit) {
				return false
			}
		}
		return true
	}
	atoms[t.id] = t
	return len(atoms) <= limit
}

func evalProp(t *Term, val map[int]bool, memo map[int]bool) bool {
	if t == True {
		return true
	}
	if t == False {
		return false
	}
	if v, ok := memo[t.id]; ok {
		return v
	}
	var r bool
	if !isConnective(t) {
		r = val[t.id]
	} else {
		switch t.Op {
		case "and":
			r = true
			for _, a := range t.Args {
				if !evalProp(a, val, memo) {
					r = false
					break
				}
			}
		case "or":
			for _, a := range t.Args {
				if evalProp(a, val, memo) {
					r = true
					break
				}
			}
		case "not":
			r = !evalProp(t.Args[0], val, memo)
		case "=>":
			r = !evalProp(t.Args[0], val, memo) || evalProp(t.Args[1], val, memo)
		case "ite":
			if evalProp(t.Args[0], val, memo) {
				r = evalProp(t.Args[1], val, memo)
			} else {
				r = evalProp(t.Args[2], val, memo)
			}
		case "=":
			r = evalProp(t.Args[0], val, memo) == evalProp(t.Args[1], val, memo)
		}
	}
	memo[t.id] = r
	return r
}

// PropEquivalent reports whether a and b are propositionally equivalent over their atoms (nil if too many atoms).
func PropEquivalent(a, b *Term, limit int) (bool, bool) {
	atoms := map[int]*Term{}
	if !collectAtoms(a, atoms, limit) || !collectAtoms(b, atoms, limit) {
		return false, false
	}
	var ids []int
	for id := range atoms {
		ids = append(ids, id)
	}
	n := len(ids)
	for m := 0; m < 1<<n; m++ {
		val := map[int]bool{}
		for i, id := range ids {
			val[id] = m&(1<<i) != 0
		}
		if evalProp(a, val, map[int]bool{}) != evalProp(b, val, map[int]bool{}) {
			return false, true
		}
	}
	return true, true
}

// SimplifyReach replaces t by a simpler candidate when propositionally equivalent.
func SimplifyReach(t *Term, candidates ...*Term) *Term {
	if t == True || t == False {
		return t
	}
	for _, c := range append([]*Term{True, False}, candidates...) {
		if c == nil || c == t {
			continue
		}
		if eq, ok := PropEquivalent(t, c, 10); ok && eq {
			return c
		}
	}
	return t
}
