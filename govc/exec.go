package main

// Symbolic execution of one go/ssa function into a term DAG with obligations.

import (
	"os"
	"fmt"
	"go/constant"
	"go/token"
	"go/types"
	"sort"
	"strings"

	"golang.org/x/tools/go/ssa"
)

var debugLoops bool

// ---------- values ----------

type Val interface{}

type Tuple []Val

const (
	LField = iota
	LElem
	LCell
	LGlobal
)

type Loc struct {
	Kind   int
	Ref    *Term      // LField: struct address; LCell: cell ref; LElem: backing array ref
	Idx    *Term      // LElem: index relative to Off
	Off    *Term      // LElem: offset of the slice in the backing array
	Struct types.Type // LField: struct type
	Field  int
	Path   []pathStep // LElem/LGlobal/LCell: fields inside a by-value struct element
	Type   types.Type // type of the content
	Global *ssa.Global
}

type pathStep struct {
	si  *structInfo
	idx int
}

type FuncVal struct {
	Fn       *ssa.Function
	Bindings []Val
}

type Unsupported struct{ Msg string }

func unsupported(f string, a ...any) { panic(Unsupported{fmt.Sprintf(f, a...)}) }

// ---------- obligations ----------

type Obligation struct {
	Name    string
	Kind    string // safety, pre, post, inv-entry, inv-preserved, decreases, frame, lemma, cover
	Fn      string
	Props   []string
	NAssume int // number of assumptions (prefix of Exec.assumes) in force
	Goal    *Term
	Pos     string
	Src     string
	exec    *Exec
	Extra   []*Term // additional assumptions specific to this obligation
	Cover   bool    // satisfiability expected (vacuity check)
	// loop-modular slice: assumptions [0,EntryN) and [LoopFrom,NAssume) - what was known at function entry plus what
	// was assumed and derived since the head of the innermost enclosing loop (0: not inside a loop)
	LoopFrom int
	EntryN   int
}

type Exec struct {
	perPathPosts bool // postconditions are being evaluated return by return (finish)
	entryAssumes int // assumptions in force before the body starts (axioms, requires, well-formedness of parameters)
	oblLoopFrom  int // set while the invariants of a loop are checked at a back edge
	axiomTerms map[*Term]string // package axioms among assumes (filtered by relevance when a query is printed)
	P        *Program
	Fn       *ssa.Function
	C        *FuncContract
	vals     map[ssa.Value]Val
	assumes  []*Term
	obls     []*Obligation
	counters map[string]int
	entry    *State
	params   map[string]Val // by name
	paramTy  map[string]types.Type
	results  []Val
	exit     *State
	exitCond *Term
	// per block
	outState map[*ssa.BasicBlock]*State
	reach    map[*ssa.BasicBlock]*Term
	edgeCond map[[2]int]*Term
	loops    map[*ssa.BasicBlock]*loopInfo
	// iterators
	iters map[ssa.Value]*iterInfo
	// names
	debugVals map[string][]debugRef
	// bookkeeping for evidence
	Inlined   map[string]bool
	Havocked  map[string]bool
	Assumed   map[string]bool
	GroupsSeen map[string]bool // proof groups of callee preconditions met at call sites (they need a group pass)
	depth     int
	errsGhost *Term
	errTok    *Term // token argument of the last NotifyErrorListeners call
	curBlock  *ssa.BasicBlock
	curState  *State
	curReach  *Term
	curInstr  ssa.Instruction
	retInfos  []retInfo
	inlineOf  *Exec // parent when inlining
	notes     []string
	specMode    bool // evaluating a specification: no obligations, no assumptions
	entryReach  *Term
	reachBase   *Term // inlined execution: the caller's reach condition (block conditions are relative to callee entry)
	globalsSeen map[*ssa.Global]*Term
	globalAssumes []*Term // included in every obligation of the function
}

type retInfo struct {
	cond    *Term
	state   *State
	results []Val
}

type debugRef struct {
	v      ssa.Value
	isAddr bool
	block  *ssa.BasicBlock
	idx    int
}

type iterInfo struct {
	mapRef  *Term
	kSort   Sort
	vSort   Sort
	visited *Term // current visited set (Array K Bool)
	isMap   bool
	rng     *ssa.Range
}

type loopInfo struct {
	variantHdr  *Term // value of the loop variant at the head (nil: no variant)
	assumeStart int // number of root assumptions when the loop head was havocked (loop-modular slice)
	header     *ssa.BasicBlock
	blocks     map[*ssa.BasicBlock]bool
	ord        string
	backPreds  []*ssa.BasicBlock
	entryState *State
	entryVals  map[ssa.Value]Val
	hdrVals    map[ssa.Value]Val
	hdrState   *State
	iterHdr    map[ssa.Value]*Term // visited at header (havocked)
	iterEntry  map[ssa.Value]*Term
	modset     map[string]bool
	freshOnly  map[string]bool
}

func NewExec(p *Program, fn *ssa.Function) *Exec {
	return &Exec{P: p, Fn: fn, C: p.ContractOf(fn), vals: map[ssa.Value]Val{}, counters: map[string]int{},
		outState: map[*ssa.BasicBlock]*State{}, reach: map[*ssa.BasicBlock]*Term{}, edgeCond: map[[2]int]*Term{},
		loops: map[*ssa.BasicBlock]*loopInfo{}, iters: map[ssa.Value]*iterInfo{}, debugVals: map[string][]debugRef{},
		Inlined: map[string]bool{}, Havocked: map[string]bool{}, Assumed: map[string]bool{}, GroupsSeen: map[string]bool{}, params: map[string]Val{}, paramTy: map[string]types.Type{}}
}

func (e *Exec) assume(t *Term) {
	if t == True || e.specMode {
		return
	}
	if t.flags&flagHasBound != 0 {
		return // would mention a bound variable outside its binder
	}
	if e.inlineOf != nil {
		e.inlineOf.assume(t)
		return
	}
	e.assumes = append(e.assumes, t)
}

// guard is the full condition under which the current program point is reached.
func (e *Exec) guard() *Term {
	if e.reachBase != nil {
		return And(e.reachBase, e.curReachOrTrue())
	}
	return e.curReachOrTrue()
}

// assumeAlways records a closed definitional fact even in specification mode.
func (e *Exec) assumeAlways(t *Term) {
	if t == True || t.flags&flagHasBound != 0 {
		return
	}
	r := e.root()
	r.globalAssumes = append(r.globalAssumes, t)
}

func (e *Exec) root() *Exec {
	r := e
	for r.inlineOf != nil {
		r = r.inlineOf
	}
	return r
}

func (e *Exec) posOf(in ssa.Instruction) string {
	if in == nil {
		return ""
	}
	pos := in.Pos()
	if !pos.IsValid() {
		// fall back to the closest earlier instruction with a position
		b := in.Block()
		if b != nil {
			for _, x := range b.Instrs {
				if x.Pos().IsValid() {
					pos = x.Pos()
				}
				if x == in {
					break
				}
			}
		}
	}
	if !pos.IsValid() {
		return ""
	}
	pp := e.P.Fset.Position(pos)
	return fmt.Sprintf("%s:%d", strings.TrimPrefix(pp.Filename, e.P.RepoDir+"/"), pp.Line)
}

// oblige records an obligation: under the current reach condition, cond must hold.
func (e *Exec) oblige(kind, detail string, cond *Term, props []string, src string) {
	if e.specMode {
		return
	}
	r := e.root()
	if activeGroup != "" && kind != "post" && kind != "pre" && kind != "inv-entry" && kind != "inv-preserved" {
		return // safety, frame, termination and vacuity obligations belong to the main pass
	}
	goal := Implies(e.guard(), cond)
	if cond == True && (kind == "post" || kind == "inv-preserved") && e.guard() != False && !e.perPathPosts {
		// vacuity guard: a contract clause that folds to `true` while it is being built says nothing
		r.notes = append(r.notes, fmt.Sprintf("VACUOUS? clause %s:%s of %s is syntactically true (%s)", kind, detail, FuncKey(r.Fn), src))
	}
	key := kind + ":" + detail
	r.counters[key]++
	name := fmt.Sprintf("%s#%s:%d", FuncKey(r.Fn), key, r.counters[key])
	o := &Obligation{Name: name, Kind: kind, Fn: FuncKey(r.Fn), Props: props, NAssume: len(r.assumes), Goal: goal, Pos: e.posOf(e.curInstr), Src: src, exec: r}
	if e.inlineOf == nil {
		o.EntryN = e.entryAssumes
		if e.oblLoopFrom > 0 {
			o.LoopFrom = e.oblLoopFrom
		} else if e.curBlock != nil && kind != "post" && kind != "frame" {
			var best *loopInfo
			for _, li := range e.loops {
				if li.blocks[e.curBlock] && li.assumeStart > 0 && (best == nil || len(li.blocks) < len(best.blocks)) {
					best = li
				}
			}
			if best != nil {
				o.LoopFrom = best.assumeStart
			}
		}
	}
	r.obls = append(r.obls, o)
	// later code may rely on it (program-point obligations only; postconditions stay independent of each other)
	if kind == "safety" || kind == "pre" || kind == "inv-entry" {
		r.assumes = append(r.assumes, goal)
	}
}

// probe adds a vacuity probe: the current program point must not be provably unreachable under the assumptions
// collected so far (an inconsistent callee contract, assumed clause, invariant or library model would make everything
// after it "proved"). Expected answer: sat or unknown; unsat is reported as a failed obligation of kind vacuity.
func (e *Exec) probe(detail string) {
	if e.specMode || noProbes {
		return
	}
	r := e.root()
	if r.C == nil || e.guard() == False {
		return
	}
	key := "vacuity:" + detail
	r.counters[key]++
	o := &Obligation{Name: fmt.Sprintf("%s#%s:%d", FuncKey(r.Fn), key, r.counters[key]), Kind: "vacuity", Fn: FuncKey(r.Fn),
		Props: unionProps(r.C.Props, []string{"C08"}), NAssume: len(r.assumes), Goal: e.guard(), Pos: e.posOf(e.curInstr),
		Src: "this point is reachable under the assumptions in force (vacuity probe)", exec: r, Cover: true}
	r.obls = append(r.obls, o)
}

var noProbes = false
var probeAll = os.Getenv("GOVC_PROBE_ALL") != ""

func (e *Exec) safety(detail string, cond *Term) {
	if e.root().C != nil && e.root().C.Flags["nosafety"] {
		e.assume(Implies(e.guard(), cond))
		return
	}
	// inlined generated code of dependencies (protobuf getters): assumed not to panic (A-PROTO-WF: oneof wrapper
	// pointers held in a non-nil interface are non-nil)
	if e.inlineOf != nil && e.Fn.Pkg != nil && !strings.HasPrefix(e.Fn.Pkg.Pkg.Path(), repoModule) {
		e.assume(Implies(e.guard(), cond))
		e.root().Assumed["A-PROTO-WF"] = true
		return
	}
	e.oblige("safety", detail, cond, []string{"C08"}, "")
}

// ---------- running ----------

type ExecResult struct {
	Obls     []*Obligation
	Err      string // inapplicable reason
	Exec     *Exec
	NAssumes int
}

func RunFunction(p *Program, fn *ssa.Function) (res *ExecResult) {
	opaqueStrings = false
	if c := p.ContractOf(fn); c != nil && c.Flags["opaque_strings"] {
		opaqueStrings = true
	}
	stringLenBound = false
	byteLen = false
	if c := p.ContractOf(fn); c != nil && c.Flags["string_len_bound"] {
		stringLenBound = true
	}
	if c := p.ContractOf(fn); c != nil && c.Flags["byte_len"] {
		byteLen = true
	}
	defer func() { opaqueStrings = false; stringLenBound = false; byteLen = false }()
	e := NewExec(p, fn)
	res = &ExecResult{Exec: e}
	defer func() {
		if r := recover(); r != nil {
			if u, ok := r.(Unsupported); ok {
				res.Err = u.Msg
				if e.curInstr != nil {
					res.Err += " at " + e.posOf(e.curInstr)
				}
				res.Obls = e.obls
				return
			}
			panic(r)
		}
	}()
	e.run()
	e.closedHeapAxioms()
	res.Obls = e.obls
	res.NAssumes = len(e.assumes)
	return res
}

// closedHeapAxioms: every reference stored in an object of the entry heap points into the entry heap (quantified
// form of the closed-heap assumption, for the components the function actually touched). Added to every obligation.
func (e *Exec) closedHeapAxioms() {
	names := e.entry.CompNames()
	next0 := e.entry.next
	for _, n := range names {
		t := e.entry.comps[n]
		if t == nil || !t.Sort.IsArray() {
			continue
		}
		_, vs := t.Sort.ArrayParts()
		r := BoundVar("r", SInt)
		switch {
		case strings.HasPrefix(n, "F$") || strings.HasPrefix(n, "C$"):
			if f := refFact(Select(t, r), vs, next0); f != nil {
				e.globalAssumes = append(e.globalAssumes, Forall([]*Term{r}, f, []*Term{Select(t, r)}))
			}
		case strings.HasPrefix(n, "E$") || strings.HasPrefix(n, "MV$"):
			if !vs.IsArray() {
				continue
			}
			ks, es := vs.ArrayParts()
			k := BoundVar("k", ks)
			if f := refFact(Select(Select(t, r), k), es, next0); f != nil {
				e.globalAssumes = append(e.globalAssumes, Forall([]*Term{r, k}, f, []*Term{Select(Select(t, r), k)}))
			}
		}
	}
}

func refFact(v *Term, s Sort, next0 *Term) *Term {
	if _, ok := aliasSorts[s]; ok && (strings.HasPrefix(string(s), "P.") || strings.HasPrefix(string(s), "M.")) {
		f := And(Le(IntLit(0), v), Lt(v, next0))
		if tg, ok := aliasTags[s]; ok {
			f = And(f, Implies(Neq(v, IntLit(0)), Eq(RType(v), tg)))
		}
		return f
	}
	switch s {
	case SSlice:
		return And(Le(IntLit(0), SArr(v)), Lt(SArr(v), next0), Le(IntLit(0), SOff(v)), Le(IntLit(0), SLen(v)), Le(SLen(v), SCap(v)))
	case SIface:
		return Lt(IVal(v), next0)
	}
	return nil
}

func (e *Exec) run() {
	fn := e.Fn
	if len(fn.Blocks) == 0 {
		unsupported("function %s has no body", fn)
	}
	e.entry = NewState("entry")
	e.assume(Gt(e.entry.next, IntLit(0)))
	for _, prm := range fn.Params {
		v := e.symbolFor("p$"+prm.Name(), prm.Type())
		e.vals[prm] = v
		e.params[prm.Name()] = v
		e.paramTy[prm.Name()] = prm.Type()
		e.assumeWF(v, prm.Type(), e.entry)
	}
	for i, fv := range fn.FreeVars {
		v := e.symbolFor(fmt.Sprintf("fv$%d$%s", i, fv.Name()), fv.Type())
		e.vals[fv] = v
		e.params[fv.Name()] = v
		e.paramTy[fv.Name()] = fv.Type()
	}
	e.curReach = True
	e.curState = e.entry
	// axioms and preconditions are assumed at entry
	if e.inlineOf == nil {
		for _, ax := range e.P.Axioms {
			if ax.Pkg != fn.Pkg.Pkg.Name() {
				continue
			}
			t := e.evalContractBool(ax.Expr, e.entryEnv(), "axiom "+ax.Name)
			e.assume(t)
			// relevance: the axiom enters a query only if an opaque spec function it speaks about occurs elsewhere in it
			if e.axiomTerms == nil {
				e.axiomTerms = map[*Term]string{}
			}
			e.axiomTerms[t] = "axiom " + ax.Pkg + "." + ax.Name
			e.Assumed["axiom "+ax.Pkg+"."+ax.Name] = true
		}
		if e.C != nil {
			for _, rq := range e.C.Requires {
				// (a precondition is an assumption of the function in every pass; its proof group only says in which pass
				// of a CALLER it is proved)
				t := e.evalContractBool(rq.Expr, e.entryEnv(), "requires")
				e.assume(t)
			}
		}
	}
	e.entryAssumes = len(e.assumes)
	e.execBody()
	e.finish()
}

func (e *Exec) symbolFor(name string, t types.Type) Val {
	return Const(fmt.Sprintf("%s$%s", strings.ReplaceAll(FuncKey(e.Fn), " ", ""), name), sortOf(t))
}

// assumeWF adds the closed-heap / well-formedness facts for a value of Go type t in state st.
func (e *Exec) assumeWF(v Val, t types.Type, st *State) {
	tm, ok := v.(*Term)
	if !ok {
		return
	}
	if f := wfTerm(tm, t, st.next); f != True {
		e.assume(Implies(e.curReachOrTrue(), f))
	}
}

// boundFor: references read out of a component that has not been written since function entry belong to the entry
// heap (closed-heap assumption at entry); otherwise they are only known to be allocated by now.
func (e *Exec) boundFor(comp string) *Term {
	if comp != "" {
		if srt, ok := allSorts.get(comp); ok {
			r := e.root()
			if r.entry != nil && e.curState.Get(comp, srt) == r.entry.Get(comp, srt) {
				return r.entry.next
			}
		}
	}
	return e.curState.next
}

func (e *Exec) compOfLoc(l *Loc) string {
	switch l.Kind {
	case LField:
		if isStruct(l.Type) {
			return ""
		}
		return fieldComp(l.Struct, l.Field)
	case LElem:
		return elemComp(l.elemSort())
	case LCell:
		if isStruct(l.Type) {
			return ""
		}
		if _, ok := l.Type.Underlying().(*types.Array); ok {
			return ""
		}
		return cellComp(sortOf(l.Type))
	}
	return ""
}

func (e *Exec) assumeWFBound(v Val, t types.Type, bound *Term) {
	tm, ok := v.(*Term)
	if !ok {
		return
	}
	if f := wfTerm(tm, t, bound); f != True {
		e.assume(Implies(e.guard(), f))
	}
}

func (e *Exec) curReachOrTrue() *Term {
	if e.curReach == nil {
		return True
	}
	return e.curReach
}

func wfTerm(tm *Term, t types.Type, next *Term) *Term {
	switch t.Underlying().(type) {
	case *types.Pointer, *types.Map:
		if tm.Op == "" {
			if v, ok := intVal(tm); ok && v == 0 {
				return True
			}
		}
		// references held in variables and heap cells denote whole allocated objects (A-WHOLE-OBJ): 0 <= r < next
		f := And(Le(IntLit(0), tm), Lt(tm, next))
		if tm.Op == "sub" {
			f = Lt(RootOf(tm), next)
		}
		if p, ok := t.Underlying().(*types.Pointer); ok {
			return And(f, Implies(Neq(tm, IntLit(0)), Eq(RType(tm), tagOf(p.Elem()))))
		}
		return And(f, Implies(Neq(tm, IntLit(0)), Eq(RType(tm), tagOf(t))))
	case *types.Slice:
		return And(Le(IntLit(0), SOff(tm)), Le(IntLit(0), SLen(tm)), Le(SLen(tm), SCap(tm)), Le(IntLit(0), SArr(tm)), Lt(SArr(tm), next),
			Implies(Eq(SArr(tm), IntLit(0)), Eq(SCap(tm), IntLit(0))), Le(SCap(tm), BigIntLit("1152921504606846976")),
			Implies(Gt(SArr(tm), IntLit(0)), Eq(RType(SArr(tm)), arrayTag(sortOf(t.Underlying().(*types.Slice).Elem())))))
	case *types.Interface:
		return And(Lt(IVal(tm), next), Implies(Eq(ITag(tm), IntLit(0)), Eq(IVal(tm), IntLit(0))), Le(IntLit(0), ITag(tm)))
	case *types.Basic:
		b := t.Underlying().(*types.Basic)
		if b.Info()&types.IsString != 0 && tm.Sort == SString && stringLenBound {
			// A-SIZE: no string is longer than 2^40 characters (so index arithmetic on strings cannot overflow)
			return Le(mk("str.len", SInt, tm), BigIntLit("1099511627776"))
		}
		if b.Info()&types.IsInteger != 0 {
			lo, hi := intRange(b)
			if lo != "" {
				return And(Le(BigIntLit(lo), tm), Le(tm, BigIntLit(hi)))
			}
		}
	}
	return True
}

func intRange(b *types.Basic) (string, string) {
	switch b.Kind() {
	case types.Int, types.Int64:
		return "-9223372036854775808", "9223372036854775807"
	case types.Int32:
		return "-2147483648", "2147483647"
	case types.Int16:
		return "-32768", "32767"
	case types.Int8:
		return "-128", "127"
	case types.Uint8:
		return "0", "255"
	case types.Uint16:
		return "0", "65535"
	case types.Uint32:
		return "0", "4294967295"
	case types.Uint, types.Uint64, types.Uintptr:
		return "0", "18446744073709551615"
	}
	return "", ""
}

// ---------- CFG preparation ----------

func (e *Exec) findLoops() []*ssa.BasicBlock {
	fn := e.Fn
	// back edges
	for _, b := range fn.Blocks {
		for _, s := range b.Succs {
			if s.Dominates(b) {
				li := e.loops[s]
				if li == nil {
					li = &loopInfo{header: s, blocks: map[*ssa.BasicBlock]bool{s: true}}
					e.loops[s] = li
				}
				li.backPreds = append(li.backPreds, b)
				// natural loop body
				var stack []*ssa.BasicBlock
				if !li.blocks[b] {
					li.blocks[b] = true
					stack = append(stack, b)
				}
				for len(stack) > 0 {
					x := stack[len(stack)-1]
					stack = stack[:len(stack)-1]
					for _, p := range x.Preds {
						if !li.blocks[p] {
							li.blocks[p] = true
							stack = append(stack, p)
						}
					}
				}
			}
		}
	}
	// ordinals
	al := astLoops(fn)
	for _, li := range e.loops {
		lo, hi := token.Pos(0), token.Pos(0)
		for b := range li.blocks {
			for _, in := range b.Instrs {
				if _, ok := in.(*ssa.DebugRef); ok {
					continue
				}
				if _, ok := in.(*ssa.Phi); ok {
					continue
				}
				p := in.Pos()
				if !p.IsValid() {
					continue
				}
				if lo == 0 || p < lo {
					lo = p
				}
				if p > hi {
					hi = p
				}
			}
		}
		best := -1
		for i, a := range al {
			if a.pos <= lo && hi <= a.end {
				if best < 0 || (a.end-a.pos) < (al[best].end-al[best].pos) {
					best = i
				}
			}
		}
		if debugLoops {
			fmt.Fprintf(os.Stderr, "loop header b%d (%s) pos range %v..%v candidates=%d best=%d\n", li.header.Index, li.header.Comment, e.P.Fset.Position(lo), e.P.Fset.Position(hi), len(al), best)
		}
		if best >= 0 {
			li.ord = al[best].ord
		} else {
			li.ord = fmt.Sprintf("?%d", li.header.Index)
		}
	}
	// topological order ignoring back edges (reverse postorder)
	var order []*ssa.BasicBlock
	seen := map[*ssa.BasicBlock]bool{}
	var dfs func(b *ssa.BasicBlock)
	dfs = func(b *ssa.BasicBlock) {
		seen[b] = true
		for i := len(b.Succs) - 1; i >= 0; i-- {
			s := b.Succs[i]
			if s.Dominates(b) { // back edge
				continue
			}
			if !seen[s] {
				dfs(s)
			}
		}
		order = append(order, b)
	}
	dfs(fn.Blocks[0])
	for i, j := 0, len(order)-1; i < j; i, j = i+1, j-1 {
		order[i], order[j] = order[j], order[i]
	}
	return order
}

func (e *Exec) collectDebugRefs() {
	for _, b := range e.Fn.Blocks {
		for i, in := range b.Instrs {
			if d, ok := in.(*ssa.DebugRef); ok {
				if obj := d.Object(); obj != nil {
					if v, ok := obj.(*types.Var); !ok || v.IsField() {
						continue // only local variables and parameters are addressable by name in invariants
					}
					e.debugVals[obj.Name()] = append(e.debugVals[obj.Name()], debugRef{d.X, d.IsAddr, b, i})
				}
			}
		}
	}
}

func (e *Exec) execBody() {
	fn := e.Fn
	order := e.findLoops()
	e.collectDebugRefs()
	for _, b := range order {
		e.curBlock = b
		li := e.loops[b]
		// incoming forward edges
		var sts []*State
		var conds []*Term
		var preds []*ssa.BasicBlock
		if b == fn.Blocks[0] {
			sts = append(sts, e.entry)
			conds = append(conds, True)
			preds = append(preds, nil)
		}
		for _, p := range b.Preds {
			if b.Dominates(p) && li != nil { // back edge
				continue
			}
			c, ok := e.edgeCond[[2]int{p.Index, b.Index}]
			if !ok {
				continue // unreachable predecessor (not in order)
			}
			sts = append(sts, e.outState[p])
			conds = append(conds, c)
			preds = append(preds, p)
		}
		if len(sts) == 0 {
			e.reach[b] = False
			e.outState[b] = e.entry
			continue
		}
		reach := Or(conds...)
		var cands []*Term
		if id := b.Idom(); id != nil {
			cands = append(cands, e.reach[id])
		}
		reach = SimplifyReach(reach, cands...)
		st := MergeStates(sts, conds)
		e.curReach = reach
		e.curState = st
		e.reach[b] = reach
		// phis
		phiVals := map[ssa.Value]Val{}
		for _, in := range b.Instrs {
			phi, ok := in.(*ssa.Phi)
			if !ok {
				break
			}
			var vs []Val
			var cs []*Term
			for k, p := range b.Preds {
				for j, q := range preds {
					if q == p {
						vs = append(vs, e.val(phi.Edges[k]))
						cs = append(cs, conds[j])
					}
				}
			}
			phiVals[phi] = e.mergeVals(vs, cs, phi.Type())
		}
		if li != nil {
			e.enterLoop(li, phiVals, st)
			st = e.curState
		} else {
			for k, v := range phiVals {
				e.vals[k] = v
			}
		}
		// instructions
		for _, in := range b.Instrs {
			if _, ok := in.(*ssa.Phi); ok {
				continue
			}
			e.curInstr = in
			e.step(in)
		}
		e.outState[b] = e.curState
		// out edges
		last := b.Instrs[len(b.Instrs)-1]
		switch t := last.(type) {
		case *ssa.If:
			c := e.term(t.Cond)
			e.setEdge(b, b.Succs[0], And(reach, c))
			e.setEdge(b, b.Succs[1], And(reach, Not(c)))
		case *ssa.Jump:
			e.setEdge(b, b.Succs[0], reach)
		}
	}
}

func (e *Exec) setEdge(from, to *ssa.BasicBlock, cond *Term) {
	if to.Dominates(from) && e.loops[to] != nil {
		// back edge: check invariants, stop.
		e.checkInvariants(e.loops[to], from, cond)
		return
	}
	key := [2]int{from.Index, to.Index}
	if old, ok := e.edgeCond[key]; ok {
		cond = Or(old, cond)
	}
	e.edgeCond[key] = cond
}

func (e *Exec) mergeVals(vs []Val, cs []*Term, t types.Type) Val {
	if len(vs) == 0 {
		return e.zeroVal(t)
	}
	allSame := true
	for _, v := range vs[1:] {
		if !sameVal(v, vs[0]) {
			allSame = false
		}
	}
	if allSame {
		return vs[0]
	}
	// function values: keep as guarded set
	if _, ok := vs[0].(*FuncVal); ok {
		return &FuncChoice{Vals: vs, Conds: cs}
	}
	res := e.toTerm(vs[len(vs)-1], t)
	for i := len(vs) - 2; i >= 0; i-- {
		res = Ite(cs[i], e.toTerm(vs[i], t), res)
	}
	return res
}

type FuncChoice struct {
	Vals  []Val
	Conds []*Term
}

func sameVal(a, b Val) bool {
	ta, ok1 := a.(*Term)
	tb, ok2 := b.(*Term)
	if ok1 && ok2 {
		return ta == tb
	}
	fa, ok1 := a.(*FuncVal)
	fb, ok2 := b.(*FuncVal)
	if ok1 && ok2 {
		return fa.Fn == fb.Fn && len(fa.Bindings) == 0 && len(fb.Bindings) == 0
	}
	return false
}

func (e *Exec) zeroVal(t types.Type) Val {
	if tup, ok := t.(*types.Tuple); ok {
		var out Tuple
		for i := 0; i < tup.Len(); i++ {
			out = append(out, e.zeroVal(tup.At(i).Type()))
		}
		return out
	}
	return zeroOf(t)
}

// toTerm converts a value to a term (locations become references where possible).
func (e *Exec) toTerm(v Val, t types.Type) *Term {
	switch x := v.(type) {
	case *Term:
		return x
	case *Loc:
		return e.locToRef(x)
	case *FuncVal:
		if len(x.Bindings) == 0 {
			return funcID(x.Fn)
		}
		return Fresh("closure", SInt)
	case *FuncChoice:
		res := e.toTerm(x.Vals[len(x.Vals)-1], t)
		for i := len(x.Vals) - 2; i >= 0; i-- {
			res = Ite(x.Conds[i], e.toTerm(x.Vals[i], t), res)
		}
		return res
	case nil:
		unsupported("nil value")
	}
	unsupported("cannot convert %T to term", v)
	return nil
}

var funcIDs = map[*ssa.Function]int{}

func funcID(f *ssa.Function) *Term {
	id, ok := funcIDs[f]
	if !ok {
		id = len(funcIDs) + 1000
		funcIDs[f] = id
	}
	return IntLit(int64(id))
}

func (e *Exec) locToRef(l *Loc) *Term {
	switch l.Kind {
	case LField:
		if _, ok := l.Type.Underlying().(*types.Struct); ok {
			return SubRef(l.Ref, fieldID(typeKey(l.Struct), l.Field))
		}
		unsupported("address of scalar field %s escapes", fieldComp(l.Struct, l.Field))
	case LCell:
		if len(l.Path) == 0 {
			return l.Ref
		}
	case LElem:
		unsupported("address of slice element escapes")
	case LGlobal:
		unsupported("address of global %s escapes", l.Global.Name())
	}
	unsupported("cannot take reference of location")
	return nil
}

func (e *Exec) val(v ssa.Value) Val {
	if x, ok := e.vals[v]; ok {
		return x
	}
	switch c := v.(type) {
	case *ssa.Const:
		return e.constVal(c)
	case *ssa.Function:
		return &FuncVal{Fn: c}
	case *ssa.Global:
		return &Loc{Kind: LGlobal, Global: c, Type: c.Type().(*types.Pointer).Elem()}
	case *ssa.Builtin:
		return c
	}
	unsupported("use of undefined value %s (%T) in %s", v.Name(), v, e.Fn)
	return nil
}

func (e *Exec) term(v ssa.Value) *Term { return e.toTerm(e.val(v), v.Type()) }

func (e *Exec) constVal(c *ssa.Const) Val {
	t := c.Type()
	if c.Value == nil {
		return e.zeroVal(t)
	}
	switch c.Value.Kind() {
	case constant.Bool:
		return BoolLit(constant.BoolVal(c.Value))
	case constant.String:
		return GoStr(constant.StringVal(c.Value))
	case constant.Int:
		return BigIntLit(c.Value.ExactString())
	case constant.Float:
		if i := constant.ToInt(c.Value); i.Kind() == constant.Int {
			return BigIntLit(i.ExactString())
		}
		unsupported("non-integral float constant %s", c.Value)
	}
	unsupported("constant kind %v", c.Value.Kind())
	return nil
}

// ---------- memory ----------

func (e *Exec) derefType(t types.Type) types.Type {
	p, ok := t.Underlying().(*types.Pointer)
	if !ok {
		unsupported("deref of non-pointer %s", t)
	}
	return p.Elem()
}

// locOf turns a pointer-typed value into a location.
func (e *Exec) locOf(v Val, ptrType types.Type) *Loc {
	if l, ok := v.(*Loc); ok {
		return l
	}
	ref := e.toTerm(v, ptrType)
	elem := e.derefType(ptrType)
	return &Loc{Kind: LCell, Ref: ref, Type: elem}
}

func (e *Exec) load(l *Loc) Val { return e.loadIn(l, e.curState) }

func (e *Exec) loadIn(l *Loc, st *State) Val {
	switch l.Kind {
	case LField:
		if _, ok := l.Type.Underlying().(*types.Struct); ok {
			return e.loadStruct(SubRef(l.Ref, fieldID(typeKey(l.Struct), l.Field)), l.Type, st)
		}
		return Select(st.Get(fieldComp(l.Struct, l.Field), ArraySort(SInt, sortOf(l.Type))), l.Ref)
	case LCell:
		var v *Term
		if _, ok := l.Type.Underlying().(*types.Struct); ok && len(l.Path) == 0 {
			return e.loadStruct(l.Ref, l.Type, st)
		}
		rootT := l.Type
		if len(l.Path) > 0 {
			unsupported("path into cell")
		}
		if at, ok := rootT.Underlying().(*types.Array); ok {
			// whole array value
			return Select(st.Get(elemComp(sortOf(at.Elem())), ArraySort(SInt, ArraySort(SInt, sortOf(at.Elem())))), l.Ref)
		}
		v = Select(st.Get(cellComp(sortOf(rootT)), ArraySort(SInt, sortOf(rootT))), l.Ref)
		return v
	case LElem:
		es := l.elemSort()
		v := At(Select(st.Get(elemComp(es), ArraySort(SInt, ArraySort(SInt, es))), l.Ref), l.Off, l.Idx)
		for _, p := range l.Path {
			v = p.si.Get(v, p.idx)
		}
		return v
	case LGlobal:
		return e.loadGlobal(l.Global, st)
	}
	unsupported("load from unknown location kind")
	return nil
}

func (l *Loc) elemSort() Sort {
	if len(l.Path) == 0 {
		return sortOf(l.Type)
	}
	return Sort(l.Path[0].si.sortName)
}

func (e *Exec) loadStruct(ref *Term, t types.Type, st *State) *Term {
	si := structDT(t)
	fs := make([]*Term, len(si.fields))
	for i, f := range si.fields {
		if _, ok := f.Type().Underlying().(*types.Struct); ok {
			fs[i] = e.loadStruct(SubRef(ref, fieldID(typeKey(t), i)), f.Type(), st)
		} else {
			fs[i] = Select(st.Get(fieldComp(t, i), ArraySort(SInt, sortOf(f.Type()))), ref)
		}
	}
	return si.Mk(fs)
}

func (e *Exec) storeStruct(ref *Term, t types.Type, v *Term, st *State) {
	si := structDT(t)
	for i, f := range si.fields {
		fv := si.Get(v, i)
		if _, ok := f.Type().Underlying().(*types.Struct); ok {
			e.storeStruct(SubRef(ref, fieldID(typeKey(t), i)), f.Type(), fv, st)
		} else {
			name := fieldComp(t, i)
			st.Set(name, Store(st.Get(name, ArraySort(SInt, fv.Sort)), ref, fv))
		}
	}
}

func (e *Exec) store(l *Loc, v Val) {
	st := e.curState
	tv := e.toTerm(v, l.Type)
	switch l.Kind {
	case LField:
		if _, ok := l.Type.Underlying().(*types.Struct); ok {
			e.storeStruct(SubRef(l.Ref, fieldID(typeKey(l.Struct), l.Field)), l.Type, tv, st)
			return
		}
		name := fieldComp(l.Struct, l.Field)
		st.Set(name, Store(st.Get(name, ArraySort(SInt, tv.Sort)), l.Ref, tv))
	case LCell:
		if _, ok := l.Type.Underlying().(*types.Struct); ok {
			e.storeStruct(l.Ref, l.Type, tv, st)
			return
		}
		if at, ok := l.Type.Underlying().(*types.Array); ok {
			name := elemComp(sortOf(at.Elem()))
			st.Set(name, Store(st.Get(name, ArraySort(SInt, tv.Sort)), l.Ref, tv))
			return
		}
		name := cellComp(sortOf(l.Type)) // by the cell's type, not by the sort of the stored term
		st.Set(name, Store(st.Get(name, ArraySort(SInt, sortOf(l.Type))), l.Ref, tv))
	case LElem:
		es := l.elemSort()
		name := elemComp(es)
		comp := st.Get(name, ArraySort(SInt, ArraySort(SInt, es)))
		arr := Select(comp, l.Ref)
		nv := tv
		abs := Add(l.Off, l.Idx)
		if len(l.Path) > 0 {
			old := Select(arr, abs)
			nv = setPath(old, l.Path, tv)
		}
		st.Set(name, Store(comp, l.Ref, Store(arr, abs, nv)))
	case LGlobal:
		e.oblige("frame", "global-write:"+l.Global.Name(), False, []string{"C13"}, "no store to a package-level variable")
		st.Set(globalComp(l.Global.Pkg.Pkg.Name(), l.Global.Name()), tv)
	}
}

func setPath(v *Term, path []pathStep, x *Term) *Term {
	if len(path) == 0 {
		return x
	}
	p := path[0]
	return p.si.With(v, p.idx, setPath(p.si.Get(v, p.idx), path[1:], x))
}

func (e *Exec) loadGlobal(g *ssa.Global, st *State) Val {
	t := g.Type().(*types.Pointer).Elem()
	name := globalComp(g.Pkg.Pkg.Name(), g.Name())
	// package-level variables are treated as immutable (stores are reported as frame violations)
	c := Const(name, sortOf(t))
	e.root().noteGlobal(g, c)
	return c
}

// alloc creates a fresh reference.
func (e *Exec) alloc() *Term {
	st := e.curState
	r := st.next
	st.next = Add(st.next, IntLit(1))
	allocRefs[r.id] = true
	return r
}

// allocRefs: terms that denote freshly allocated (hence non-nil) references.
var allocRefs = map[int]bool{}

func knownNonNil(r *Term) bool {
	if allocRefs[r.id] {
		return true
	}
	if r.Op == "sub" {
		return true
	}
	return false
}

// assumeZeroStruct states that the fields of a freshly allocated struct are zero.
func (e *Exec) assumeZeroStruct(ref *Term, t types.Type) {
	st := e.curState
	si := structDT(t)
	for i, f := range si.fields {
		if _, ok := f.Type().Underlying().(*types.Struct); ok {
			e.assumeZeroStruct(SubRef(ref, fieldID(typeKey(t), i)), f.Type())
			continue
		}
		if isOpaqueField(f) {
			continue
		}
		s := sortOf(f.Type())
		e.assume(Implies(e.guard(), Eq(Select(st.Get(fieldComp(t, i), ArraySort(SInt, s)), ref), zeroOf(f.Type()))))
	}
}

func isOpaqueField(f *types.Var) bool {
	switch f.Name() {
	case "state", "sizeCache", "unknownFields", "NoUnkeyedLiterals", "DoNotCompare", "DoNotCopy", "atomicMessageInfo":
		return true
	}
	return false
}

// ---------- stepping ----------

func (e *Exec) step(in ssa.Instruction) {
	switch x := in.(type) {
	case *ssa.DebugRef:
	case *ssa.Alloc:
		e.vals[x] = e.doAlloc(x.Type().(*types.Pointer).Elem())
	case *ssa.FieldAddr:
		base := e.val(x.X)
		st := e.derefType(x.X.Type())
		ft := st.Underlying().(*types.Struct).Field(x.Field).Type()
		switch b := base.(type) {
		case *Loc:
			if b.Kind == LElem || (b.Kind == LGlobal) || (b.Kind == LCell && !isStruct(b.Type)) {
				nl := *b
				nl.Path = append(append([]pathStep{}, b.Path...), pathStep{structDT(st), x.Field})
				nl.Type = ft
				if b.Kind == LElem && len(b.Path) == 0 {
					// remember the element sort through Path[0]
				}
				e.vals[x] = &nl
				return
			}
			ref := e.locToRef(b)
			e.vals[x] = &Loc{Kind: LField, Ref: ref, Struct: st, Field: x.Field, Type: ft}
		default:
			ref := e.toTerm(base, x.X.Type())
			if !knownNonNil(ref) {
				e.safety("nilderef", Neq(ref, IntLit(0)))
			}
			e.vals[x] = &Loc{Kind: LField, Ref: ref, Struct: st, Field: x.Field, Type: ft}
		}
	case *ssa.Field:
		sv := e.term(x.X)
		si := structDT(x.X.Type())
		e.vals[x] = si.Get(sv, x.Field)
	case *ssa.IndexAddr:
		e.vals[x] = e.indexAddr(x)
	case *ssa.Index:
		e.vals[x] = e.index(x)
	case *ssa.Lookup:
		e.vals[x] = e.lookup(x)
	case *ssa.UnOp:
		e.vals[x] = e.unop(x)
	case *ssa.BinOp:
		e.vals[x] = e.binop(x)
	case *ssa.Store:
		l := e.locOf(e.val(x.Addr), x.Addr.Type())
		if l.Kind == LCell && !knownNonNil(l.Ref) {
			e.safety("nilderef", Neq(l.Ref, IntLit(0)))
		}
		e.store(l, e.val(x.Val))
	case *ssa.Phi:
	case *ssa.Call:
		e.vals[x] = e.call(x, &x.Call)
		if probeAll && e.inlineOf == nil {
			e.probe("dbg-after:" + strings.ReplaceAll(x.Call.String(), " ", ""))
		}
	case *ssa.Extract:
		tup, ok := e.val(x.Tuple).(Tuple)
		if !ok {
			unsupported("extract from non-tuple")
		}
		e.vals[x] = tup[x.Index]
	case *ssa.MakeInterface:
		e.vals[x] = e.makeInterface(e.val(x.X), x.X.Type())
	case *ssa.ChangeInterface:
		e.vals[x] = e.val(x.X)
	case *ssa.ChangeType:
		e.vals[x] = e.val(x.X)
	case *ssa.Convert:
		e.vals[x] = e.convert(x)
	case *ssa.TypeAssert:
		e.vals[x] = e.typeAssert(x)
	case *ssa.MakeMap:
		e.vals[x] = e.makeMap(x.Type())
	case *ssa.MakeSlice:
		e.vals[x] = e.makeSlice(x)
	case *ssa.MakeClosure:
		fv := &FuncVal{Fn: x.Fn.(*ssa.Function)}
		for _, b := range x.Bindings {
			fv.Bindings = append(fv.Bindings, e.val(b))
		}
		e.vals[x] = fv
	case *ssa.Slice:
		e.vals[x] = e.sliceOp(x)
	case *ssa.MapUpdate:
		e.mapUpdate(x)
	case *ssa.Range:
		e.rangeInit(x)
	case *ssa.Next:
		e.vals[x] = e.next(x)
	case *ssa.If, *ssa.Jump:
	case *ssa.Return:
		var rs []Val
		for _, r := range x.Results {
			rs = append(rs, e.val(r))
		}
		e.retInfos = append(e.retInfos, retInfo{e.curReach, e.curState, rs})
	case *ssa.Panic:
		if e.root().C == nil || !e.root().C.Flags["maypanic"] {
			e.safety("panic", False)
		}
	case *ssa.RunDefers:
	case *ssa.SliceToArrayPointer, *ssa.MultiConvert:
		unsupported("instruction %T", in)
	default:
		unsupported("instruction %T (%s)", in, in)
	}
}

func isStruct(t types.Type) bool {
	_, ok := t.Underlying().(*types.Struct)
	return ok
}

// RType is the allocation type of a reference (an uninterpreted tag: objects of different Go types are different
// objects even though references are plain integers).
func RType(r *Term) *Term { return App(DeclFun("rtype", []Sort{SInt}, SInt), SInt, r) }

func arrayTag(es Sort) *Term { return namedTag("array:" + sortTag(es)) }

func (e *Exec) doAlloc(t types.Type) Val {
	r := e.alloc()
	if at, ok := t.Underlying().(*types.Array); ok {
		e.assume(Implies(e.guard(), Eq(RType(r), arrayTag(sortOf(at.Elem())))))
	} else {
		e.assume(Implies(e.guard(), Eq(RType(r), tagOf(t))))
	}
	st := e.curState
	switch u := t.Underlying().(type) {
	case *types.Struct:
		e.assumeZeroStruct(r, t)
		return r
	case *types.Array:
		es := sortOf(u.Elem())
		comp := st.Get(elemComp(es), ArraySort(SInt, ArraySort(SInt, es)))
		e.assume(Implies(e.guard(), Eq(Select(comp, r), ConstArr(ArraySort(SInt, es), zeroOf(u.Elem())))))
		return r
	default:
		s := sortOf(t)
		comp := st.Get(cellComp(s), ArraySort(SInt, s))
		e.assume(Implies(e.guard(), Eq(Select(comp, r), zeroOf(t))))
		return &Loc{Kind: LCell, Ref: r, Type: t}
	}
}

func (e *Exec) indexAddr(x *ssa.IndexAddr) Val {
	idx := e.term(x.Index)
	switch t := x.X.Type().Underlying().(type) {
	case *types.Slice:
		s := e.term(x.X)
		e.safety("index", And(Le(IntLit(0), idx), Lt(idx, SLen(s))))
		return &Loc{Kind: LElem, Ref: SArr(s), Off: SOff(s), Idx: idx, Type: t.Elem()}
	case *types.Pointer:
		at, ok := t.Elem().Underlying().(*types.Array)
		if !ok {
			unsupported("IndexAddr on pointer to %s", t.Elem())
		}
		base := e.val(x.X)
		var ref *Term
		if l, ok := base.(*Loc); ok {
			if l.Kind != LCell {
				unsupported("IndexAddr on array inside struct")
			}
			ref = l.Ref
		} else {
			ref = e.toTerm(base, x.X.Type())
		}
		e.safety("index", And(Le(IntLit(0), idx), Lt(idx, IntLit(at.Len()))))
		return &Loc{Kind: LElem, Ref: ref, Off: IntLit(0), Idx: idx, Type: at.Elem()}
	}
	unsupported("IndexAddr on %s", x.X.Type())
	return nil
}

func (e *Exec) index(x *ssa.Index) Val {
	idx := e.term(x.Index)
	switch t := x.X.Type().Underlying().(type) {
	case *types.Basic: // string
		s := e.term(x.X)
		e.safety("index", And(Le(IntLit(0), idx), Lt(idx, mk("str.len", SInt, s))))
		return mk("str.to_code", SInt, mk("str.at", SString, s, idx))
	case *types.Array:
		a := e.term(x.X)
		e.safety("index", And(Le(IntLit(0), idx), Lt(idx, IntLit(t.Len()))))
		return Select(a, idx)
	}
	unsupported("Index on %s", x.X.Type())
	return nil
}

// ---------- maps ----------

func mapSorts(t types.Type) (Sort, Sort) {
	m := t.Underlying().(*types.Map)
	return sortOf(m.Key()), sortOf(m.Elem())
}

func (e *Exec) mapDom(st *State, m *Term, k, v Sort) *Term {
	return Select(st.Get(mapDomComp(k, v), ArraySort(SInt, ArraySort(k, SBool))), m)
}
func (e *Exec) mapVal(st *State, m *Term, k, v Sort) *Term {
	return Select(st.Get(mapValComp(k, v), ArraySort(SInt, ArraySort(k, v))), m)
}

func cardFn(k Sort) string {
	return DeclFun("card_"+sortTag(k), []Sort{ArraySort(k, SBool)}, SInt)
}

// Card returns the cardinality term of a set and records its defining facts for sets built by store from a base.
func (e *Exec) Card(set *Term) *Term {
	k, _ := set.Sort.ArrayParts()
	c := App(cardFn(k), SInt, set)
	empty := ConstArr(set.Sort, False)
	// definitional facts: also recorded while a contract is being evaluated
	e.assumeAlways(And(Ge(c, IntLit(0)), Eq(Eq(c, IntLit(0)), Eq(set, empty))))
	// unfold one level of store
	if set.Op == "store" {
		base, key, val := set.Args[0], set.Args[1], set.Args[2]
		cb := e.Card(base)
		e.assumeAlways(Eq(c, Ite(Eq(Select(base, key), val), cb, Ite(val, Add(cb, IntLit(1)), Sub(cb, IntLit(1))))))
	}
	return c
}

func (e *Exec) makeMap(t types.Type) Val {
	k, v := mapSorts(t)
	r := e.alloc()
	st := e.curState
	e.assume(Implies(e.guard(), Eq(RType(r), tagOf(t))))
	e.assume(Implies(e.guard(), And(
		Eq(e.mapDom(st, r, k, v), ConstArr(ArraySort(k, SBool), False)),
		Eq(e.mapVal(st, r, k, v), ConstArr(ArraySort(k, v), zeroOf(t.Underlying().(*types.Map).Elem()))))))
	return r
}

func (e *Exec) lookup(x *ssa.Lookup) Val {
	if _, ok := x.X.Type().Underlying().(*types.Map); !ok {
		// string index
		s := e.term(x.X)
		idx := e.term(x.Index)
		e.safety("index", And(Le(IntLit(0), idx), Lt(idx, mk("str.len", SInt, s))))
		return mk("str.to_code", SInt, mk("str.at", SString, s, idx))
	}
	k, v := mapSorts(x.X.Type())
	m := e.term(x.X)
	key := e.term(x.Index)
	st := e.curState
	// nil map lookup is fine in Go: model nil map as empty domain
	has := And(Neq(m, IntLit(0)), Select(e.mapDom(st, m, k, v), key))
	val := Ite(has, Select(e.mapVal(st, m, k, v), key), zeroOfSort(v))
	if v == SSlice {
		// the same lookup in its function form (see MapGet): gives quantified facts about m[k][j] a ground term to match
		e.assumeAlways(Eq(MapGet(Neq(m, IntLit(0)), e.mapDom(st, m, k, v), e.mapVal(st, m, k, v), key, k, v), val))
	}
	mt := x.X.Type().Underlying().(*types.Map)
	e.assumeWFBound(val, mt.Elem(), e.boundFor(mapValComp(k, v)))
	if x.CommaOk {
		return Tuple{val, has}
	}
	return val
}

func (e *Exec) mapUpdate(x *ssa.MapUpdate) {
	k, v := mapSorts(x.Map.Type())
	m := e.term(x.Map)
	key := e.term(x.Key)
	val := e.term(x.Value)
	e.safety("nilmap", Neq(m, IntLit(0)))
	e.mapStore(m, key, val, k, v)
}

func (e *Exec) mapStore(m, key, val *Term, k, v Sort) {
	st := e.curState
	dn, vn := mapDomComp(k, v), mapValComp(k, v)
	dc := st.Get(dn, ArraySort(SInt, ArraySort(k, SBool)))
	vc := st.Get(vn, ArraySort(SInt, ArraySort(k, v)))
	st.Set(dn, Store(dc, m, Store(Select(dc, m), key, True)))
	st.Set(vn, Store(vc, m, Store(Select(vc, m), key, val)))
}

func (e *Exec) mapDelete(m, key *Term, k, v Sort) {
	st := e.curState
	dn := mapDomComp(k, v)
	dc := st.Get(dn, ArraySort(SInt, ArraySort(k, SBool)))
	// delete on nil map is a no-op
	st.Set(dn, Ite(Eq(m, IntLit(0)), dc, Store(dc, m, Store(Select(dc, m), key, False))))
}

func (e *Exec) rangeInit(x *ssa.Range) {
	mt, ok := x.X.Type().Underlying().(*types.Map)
	if !ok {
		unsupported("range over %s", x.X.Type())
	}
	k, v := sortOf(mt.Key()), sortOf(mt.Elem())
	it := &iterInfo{mapRef: e.term(x.X), kSort: k, vSort: v, isMap: true, rng: x,
		visited: ConstArr(ArraySort(k, SBool), False)}
	e.iters[x] = it
	e.vals[x] = it
}

func (e *Exec) next(x *ssa.Next) Val {
	it, ok := e.val(x.Iter).(*iterInfo)
	if !ok || !it.isMap {
		unsupported("next on non-map iterator")
	}
	st := e.curState
	k, v := it.kSort, it.vSort
	dom := e.mapDom(st, it.mapRef, k, v)
	key := Fresh("rk", k)
	okT := Fresh("rok", SBool)
	bv := BoundVar("k", k)
	// ok <=> some unvisited key exists; when ok, key is one of them.
	remaining := func(t *Term) *Term { return And(Neq(it.mapRef, IntLit(0)), Select(dom, t), Not(Select(it.visited, t))) }
	e.assume(Implies(e.guard(), And(
		Implies(okT, remaining(key)),
		Implies(Not(okT), Forall([]*Term{bv}, Not(remaining(bv)), []*Term{Select(dom, bv)}, []*Term{Select(it.visited, bv)})))))
	val := Select(e.mapVal(st, it.mapRef, k, v), key)
	mt := x.Iter.(*ssa.Range).X.Type().Underlying().(*types.Map)
	e.assumeWFBound(val, mt.Elem(), e.boundFor(mapValComp(k, v)))
	it.visited = Ite(okT, Store(it.visited, key, True), it.visited)
	return Tuple{okT, key, val}
}

// ---------- slices ----------

func (e *Exec) elems(st *State, es Sort) *Term {
	return st.Get(elemComp(es), ArraySort(SInt, ArraySort(SInt, es)))
}

func (e *Exec) makeSlice(x *ssa.MakeSlice) Val {
	ln := e.term(x.Len)
	cp := e.term(x.Cap)
	e.safety("makeslice", And(Le(IntLit(0), ln), Le(ln, cp)))
	es := sortOf(x.Type().Underlying().(*types.Slice).Elem())
	r := e.alloc()
	e.assume(Implies(e.guard(), Eq(RType(r), arrayTag(es))))
	comp := e.elems(e.curState, es)
	e.assume(Implies(e.guard(), Eq(Select(comp, r), ConstArr(ArraySort(SInt, es), zeroOfSort(es)))))
	return MkSlice(r, IntLit(0), ln, cp)
}

func (e *Exec) sliceOp(x *ssa.Slice) Val {
	var lo, hi *Term
	if x.Low != nil {
		lo = e.term(x.Low)
	} else {
		lo = IntLit(0)
	}
	switch t := x.X.Type().Underlying().(type) {
	case *types.Basic: // string
		s := e.term(x.X)
		ln := mk("str.len", SInt, s)
		if x.High != nil {
			hi = e.term(x.High)
		} else {
			hi = ln
		}
		e.safety("slice", And(Le(IntLit(0), lo), Le(lo, hi), Le(hi, ln)))
		return mk("str.substr", SString, s, lo, Sub(hi, lo))
	case *types.Slice:
		s := e.term(x.X)
		if x.High != nil {
			hi = e.term(x.High)
		} else {
			hi = SLen(s)
		}
		if x.Max != nil {
			unsupported("3-index slice")
		}
		e.safety("slice", And(Le(IntLit(0), lo), Le(lo, hi), Le(hi, SCap(s))))
		// Go: slicing a nil slice [0:0] yields nil
		return MkSlice(SArr(s), Add(SOff(s), lo), Sub(hi, lo), Sub(SCap(s), lo))
	case *types.Pointer:
		at, ok := t.Elem().Underlying().(*types.Array)
		if !ok {
			unsupported("slice of pointer to %s", t.Elem())
		}
		base := e.val(x.X)
		var ref *Term
		if l, ok := base.(*Loc); ok {
			ref = l.Ref
		} else {
			ref = e.toTerm(base, x.X.Type())
		}
		if x.High != nil {
			hi = e.term(x.High)
		} else {
			hi = IntLit(at.Len())
		}
		e.safety("slice", And(Le(IntLit(0), lo), Le(lo, hi), Le(hi, IntLit(at.Len()))))
		return MkSlice(ref, lo, Sub(hi, lo), Sub(IntLit(at.Len()), lo))
	}
	unsupported("slice of %s", x.X.Type())
	return nil
}

// elemAt returns s[i] in state st.
func (e *Exec) elemAt(st *State, s *Term, i *Term, es Sort) *Term {
	return At(Select(e.elems(st, es), SArr(s)), SOff(s), i)
}

// At is arr[off+i], wrapped in a function symbol so that quantified facts about slice elements have triggers free of
// arithmetic (at(a, off, i) matches syntactically in i). Defining axiom: at(a, off, i) = select(a, off+i).
func At(arr, off, i *Term) *Term {
	_, es := arr.Sort.ArrayParts()
	if o, ok := intVal(off); ok {
		if k, ok := intVal(i); ok {
			r := Select(arr, IntLit(o+k))
			if r.Op != "select" {
				return r
			}
		}
	}
	name := "at_" + sortTag(es)
	fn := DeclFun(name, []Sort{arr.Sort, SInt, SInt}, es)
	if _, ok := TS.axioms[fn]; !ok {
		a, o, k := BoundVar("a", arr.Sort), BoundVar("o", SInt), BoundVar("k", SInt)
		AddInstAxiom(fn, []*Term{a, o, k}, App(fn, es, a, o, k), Eq(App(fn, es, a, o, k), Select(a, Add(o, k))))
	}
	return App(fn, es, arr, off, i)
}

// appendOne models append(s, x) for a single element (Go semantics incl. aliasing).
func (e *Exec) appendElems(s *Term, xs []*Term, es Sort) *Term {
	st := e.curState
	n := IntLit(int64(len(xs)))
	newLen := Add(SLen(s), n)
	inPlace := Le(newLen, SCap(s))
	comp := e.elems(st, es)
	// in-place branch
	arrIP := Select(comp, SArr(s))
	for j, x := range xs {
		arrIP = Store(arrIP, Add(Add(SOff(s), SLen(s)), IntLit(int64(j))), x)
	}
	compIP := Store(comp, SArr(s), arrIP)
	resIP := MkSlice(SArr(s), SOff(s), newLen, SCap(s))
	// fresh branch
	r := st.next
	newCap := Fresh("cap", SInt)
	na := Fresh("newarr", ArraySort(SInt, es))
	bi := BoundVar("i", SInt)
	old := Select(comp, SArr(s))
	copyFact := Forall([]*Term{bi}, Implies(And(Le(IntLit(0), bi), Lt(bi, SLen(s))), Eq(Select(na, bi), Select(old, Add(SOff(s), bi)))), []*Term{Select(na, bi)})
	facts := []*Term{copyFact, Ge(newCap, newLen), Le(newCap, BigIntLit("1152921504606846976")), Eq(RType(r), arrayTag(es))}
	for j, x := range xs {
		facts = append(facts, Eq(Select(na, Add(SLen(s), IntLit(int64(j)))), x))
	}
	e.assume(Implies(And(e.guard(), Not(inPlace)), And(facts...)))
	compFR := Store(comp, r, na)
	resFR := MkSlice(r, IntLit(0), newLen, newCap)
	newComp := Ite(inPlace, compIP, compFR)
	res := Ite(inPlace, resIP, resFR)
	st.Set(elemComp(es), newComp)
	st.next = Ite(inPlace, st.next, Add(st.next, IntLit(1)))
	// consequences of the model, stated on the element view so that quantified facts about the old and the new
	// slice trigger each other: the old elements are a prefix of the result, the new ones follow.
	newArr := Select(newComp, SArr(res))
	bj := BoundVar("i", SInt)
	oldAt, newAt := At(old, SOff(s), bj), At(newArr, SOff(res), bj)
	view := Forall([]*Term{bj}, Implies(And(Le(IntLit(0), bj), Lt(bj, SLen(s))), Eq(newAt, oldAt)), []*Term{oldAt}, []*Term{newAt})
	vf := []*Term{view}
	for j, x := range xs {
		vf = append(vf, Eq(At(newArr, SOff(res), Add(SLen(s), IntLit(int64(j)))), x))
	}
	e.assume(Implies(e.guard(), And(vf...)))
	return res
}

// ---------- interfaces ----------

func (e *Exec) makeInterface(v Val, t types.Type) Val {
	if _, ok := t.Underlying().(*types.Interface); ok {
		return v
	}
	tm := e.toTerm(v, t)
	return MkIface(tagOf(t), Box(tm))
}

func (e *Exec) typeAssert(x *ssa.TypeAssert) Val {
	iv := e.term(x.X)
	if _, isIface := x.AssertedType.Underlying().(*types.Interface); isIface {
		// interface-to-interface: succeeds for non-nil values whose dynamic type implements it; decide statically
		// when the tag is known, otherwise leave open.
		ok := And(Neq(ITag(iv), IntLit(0)), e.implementsTerm(iv, x.AssertedType))
		if x.CommaOk {
			return Tuple{Ite(ok, iv, nilIface), ok}
		}
		e.safety("typeassert", ok)
		return iv
	}
	ok := Eq(ITag(iv), tagOf(x.AssertedType))
	s := sortOf(x.AssertedType)
	val := Unbox(IVal(iv), s)
	if n, isNamed := x.X.Type().(*types.Named); isNamed && n.Obj().Pkg() != nil && n.Obj().Pkg().Path() == "github.com/openfga/api/proto/openfga/v1" && !n.Obj().Exported() {
		// A-PROTO-WF: the wrapper held in a oneof field (unexported interface isX_Y of the generated package) is never a
		// typed nil pointer - the generated getters dereference it in the same way
		if _, isPtr := x.AssertedType.Underlying().(*types.Pointer); isPtr {
			e.assume(Implies(And(e.guard(), ok), Neq(val, IntLit(0))))
			e.root().Assumed["A-PROTO-WF"] = true
		}
	}
	if x.CommaOk {
		return Tuple{Ite(ok, val, zeroOf(x.AssertedType)), ok}
	}
	e.safety("typeassert", ok)
	return val
}

func (e *Exec) implementsTerm(iv *Term, it types.Type) *Term {
	// unknown dynamic types: uninterpreted predicate per interface type
	fn := DeclFun("implements_"+shortTypeName(it), []Sort{SInt}, SBool)
	return App(fn, SBool, ITag(iv))
}

// ---------- operators ----------

func (e *Exec) unop(x *ssa.UnOp) Val {
	switch x.Op {
	case token.MUL:
		pv := e.val(x.X)
		l := e.locOf(pv, x.X.Type())
		if l.Kind == LCell && !knownNonNil(l.Ref) {
			e.safety("nilderef", Neq(l.Ref, IntLit(0)))
		}
		v := e.load(l)
		e.assumeWFBound(v, l.Type, e.boundFor(e.compOfLoc(l)))
		return v
	case token.NOT:
		return Not(e.term(x.X))
	case token.SUB:
		return Sub(IntLit(0), e.term(x.X))
	case token.ARROW, token.XOR:
		unsupported("unop %s", x.Op)
	}
	unsupported("unop %s", x.Op)
	return nil
}

func (e *Exec) binop(x *ssa.BinOp) Val {
	a, b := e.term(x.X), e.term(x.Y)
	bt, _ := x.X.Type().Underlying().(*types.Basic)
	isStr := bt != nil && bt.Info()&types.IsString != 0
	if isStr && opaqueStrings && x.Op != token.EQL && x.Op != token.NEQ {
		unsupported("string operator %s under opaque_strings", x.Op)
	}
	isInt := bt != nil && bt.Info()&types.IsInteger != 0
	checkOvf := func(r *Term) {
		if isSmall(a) && isSmall(b) {
			return
		}
		if isInt && (bt.Kind() == types.Int || bt.Kind() == types.Int64) {
			e.safety("overflow", And(Le(BigIntLit("-9223372036854775808"), r), Le(r, BigIntLit("9223372036854775807"))))
		}
	}
	switch x.Op {
	case token.ADD:
		if isStr {
			return mk("str.++", SString, a, b)
		}
		r := Add(a, b)
		checkOvf(r)
		return r
	case token.SUB:
		r := Sub(a, b)
		checkOvf(r)
		return r
	case token.MUL:
		r := Mul(a, b)
		checkOvf(r)
		return r
	case token.QUO:
		e.safety("divzero", Neq(b, IntLit(0)))
		// Go truncates toward zero
		q := mk("div", SInt, mk("abs", SInt, a), mk("abs", SInt, b))
		return Ite(Eq(Lt(a, IntLit(0)), Lt(b, IntLit(0))), q, Sub(IntLit(0), q))
	case token.REM:
		e.safety("divzero", Neq(b, IntLit(0)))
		m := mk("mod", SInt, mk("abs", SInt, a), mk("abs", SInt, b))
		return Ite(Lt(a, IntLit(0)), Sub(IntLit(0), m), m)
	case token.EQL:
		return e.eqVals(a, b, x.X.Type())
	case token.NEQ:
		return Not(e.eqVals(a, b, x.X.Type()))
	case token.LSS:
		if isStr {
			return mk("str.<", SBool, a, b)
		}
		return Lt(a, b)
	case token.LEQ:
		if isStr {
			return mk("str.<=", SBool, a, b)
		}
		return Le(a, b)
	case token.GTR:
		if isStr {
			return mk("str.<", SBool, b, a)
		}
		return Lt(b, a)
	case token.GEQ:
		if isStr {
			return mk("str.<=", SBool, b, a)
		}
		return Le(b, a)
	case token.LAND, token.LOR:
		unsupported("logical binop in SSA")
	}
	unsupported("binop %s", x.Op)
	return nil
}

// byteLen (contract flag `byte_len`): Go's len(s) is the UTF-8 BYTE length, SMT's str.len counts code points. With
// the flag the builtin len on strings is the uninterpreted blen(s) with: str.len(s) <= blen(s) <= 4*str.len(s), and
// blen(s) == str.len(s) for ASCII strings. Use it for code that compares len(s) with a limit.
var byteLen bool

func ByteLen(s *Term) *Term {
	fn := DeclFun("blen", []Sort{SString}, SInt)
	if _, ok := TS.axioms[fn]; !ok {
		x := BoundVar("s", SString)
		b := App(fn, SInt, x)
		n := mk("str.len", SInt, x)
		ascii := mk("re.*", SRegLan, mk("re.range", SRegLan, StrLit("\x00"), StrLit("\x7f")))
		AddInstAxiom(fn, []*Term{x}, b, And(Le(n, b), Le(b, Mul(IntLit(4), n)), Implies(mk("str.in_re", SBool, x, ascii), Eq(b, n))))
	}
	return App(fn, SInt, s)
}

// stringLenBound: add the A-SIZE bound on string lengths to the well-formedness of string values (contract flag
// `string_len_bound`; off by default because length constraints slow the string solvers down).
var stringLenBound bool

// isSmall: the term is a length, an index into a string/slice, a small constant, or a sum/difference of such; its
// magnitude is bounded by the size of addressable memory, so 64-bit arithmetic on two small terms cannot overflow.
func isSmall(t *Term) bool {
	if v, ok := intVal(t); ok {
		return v > -(1<<40) && v < (1<<40)
	}
	switch t.Op {
	case "str.len", "str.indexof", "s_len", "s_cap", "s_off", "str.to_code":
		return true
	case "+", "-":
		for _, a := range t.Args {
			if !isSmall(a) {
				return false
			}
		}
		return true
	case "ite":
		return isSmall(t.Args[1]) && isSmall(t.Args[2])
	}
	return false
}

func (e *Exec) eqVals(a, b *Term, t types.Type) *Term {
	switch t.Underlying().(type) {
	case *types.Slice:
		// only comparison with nil is legal
		if b == nilSlice {
			return Eq(SArr(a), IntLit(0))
		}
		if a == nilSlice {
			return Eq(SArr(b), IntLit(0))
		}
	case *types.Interface:
		if b == nilIface {
			return Eq(ITag(a), IntLit(0))
		}
		if a == nilIface {
			return Eq(ITag(b), IntLit(0))
		}
	}
	return Eq(a, b)
}

func (e *Exec) convert(x *ssa.Convert) Val {
	from, to := x.X.Type().Underlying(), x.Type().Underlying()
	v := e.term(x.X)
	fb, fok := from.(*types.Basic)
	tb, tok := to.(*types.Basic)
	if fok && tok {
		if fb.Info()&types.IsString != 0 && tb.Info()&types.IsString != 0 {
			return v
		}
		if fb.Info()&types.IsNumeric != 0 && tb.Info()&types.IsNumeric != 0 {
			if tb.Info()&types.IsFloat != 0 {
				// exact below 2^53 (A-MATH)
				e.safety("float-exact", And(Le(BigIntLit("-9007199254740992"), v), Le(v, BigIntLit("9007199254740992"))))
				return v
			}
			if fb.Info()&types.IsFloat != 0 {
				return v
			}
			if lo, hi := intRange(tb); lo != "" {
				flo, fhi := intRange(fb)
				if flo != lo || fhi != hi {
					// narrowing/sign change must not lose information for our purposes
					if !(rangeWithin(flo, fhi, lo, hi)) {
						e.safety("convert-range", And(Le(BigIntLit(lo), v), Le(v, BigIntLit(hi))))
					}
				}
			}
			return v
		}
		if fb.Info()&types.IsInteger != 0 && tb.Info()&types.IsString != 0 {
			return mk("str.from_code", SString, v)
		}
	}
	// string <-> []byte, []rune: opaque injective conversions
	fn := DeclFun("conv_"+sortTag(sortOf(x.X.Type()))+"_"+sortTag(sortOf(x.Type())), []Sort{sortOf(x.X.Type())}, sortOf(x.Type()))
	r := App(fn, sortOf(x.Type()), v)
	return r
}

func rangeWithin(flo, fhi, lo, hi string) bool {
	if flo == "" {
		return false
	}
	cmp := func(a, b string) int {
		x := constant.MakeFromLiteral(a, token.INT, 0)
		y := constant.MakeFromLiteral(b, token.INT, 0)
		if constant.Compare(x, token.LSS, y) {
			return -1
		}
		if constant.Compare(x, token.GTR, y) {
			return 1
		}
		return 0
	}
	neg := func(s string) constant.Value {
		if strings.HasPrefix(s, "-") {
			return constant.UnaryOp(token.SUB, constant.MakeFromLiteral(s[1:], token.INT, 0), 0)
		}
		return constant.MakeFromLiteral(s, token.INT, 0)
	}
	_ = cmp
	return constant.Compare(neg(lo), token.LEQ, neg(flo)) && constant.Compare(neg(fhi), token.LEQ, neg(hi))
}

// ---------- finish: postconditions ----------

func (e *Exec) finish() {
	if len(e.retInfos) == 0 {
		e.exitCond = False
		e.exit = e.entry
		return
	}
	var sts []*State
	var conds []*Term
	for _, r := range e.retInfos {
		sts = append(sts, r.state)
		conds = append(conds, r.cond)
	}
	e.exit = MergeStates(sts, conds)
	e.exitCond = SimplifyReach(Or(conds...))
	nres := e.Fn.Signature.Results().Len()
	e.results = make([]Val, nres)
	for i := 0; i < nres; i++ {
		var vs []Val
		for _, r := range e.retInfos {
			vs = append(vs, r.results[i])
		}
		e.results[i] = e.mergeVals(vs, conds, e.Fn.Signature.Results().At(i).Type())
	}
	if e.inlineOf != nil {
		return
	}
	e.curReach = e.exitCond
	e.curState = e.exit
	e.curInstr = nil
	if e.C == nil {
		return
	}
	e.probe("exit")
	env := e.exitEnv()
	if len(e.retInfos) > 1 && e.C.Flags["per_return_posts"] {
		// Contract flag per_return_posts: postconditions are checked return by return, each in the state of its own path.
		// (Opt-in: for most functions the merged exit state is the better query - prioritizeDirectAssignment#post:src_map
		// is decided in a second on the merged state and not at all on its hoisting path alone.) The merged exit state is an
		// ite over whole heap components, and a quantified clause over it makes the solvers split cases under the
		// quantifier (obligations of functions with several returns took 30-40 s that take well under a second per path).
		// The conjunction over the paths is equivalent to the check on the merged state. The ordinal at the end of the
		// obligation name counts the returns in source order.
		mExit, mResults, mCond, mReach, mState := e.exit, e.results, e.exitCond, e.curReach, e.curState
		e.perPathPosts = true
		nonTrivial := map[string]bool{}
		for _, r := range e.retInfos {
			e.exit, e.curState = r.state, r.state
			e.results = append([]Val(nil), r.results...)
			e.exitCond, e.curReach = r.cond, r.cond
			penv := e.exitEnv()
			for i, en := range e.C.Ensures {
				if !clauseOn(en) || !clauseEmit(en) {
					continue
				}
				t := e.evalContractBool(en.Expr, penv, "ensures")
				label := en.Label
				if label == "" {
					label = fmt.Sprintf("%d", i+1)
				}
				props := en.Props
				if len(props) == 0 {
					props = e.C.Props
				}
				if t != True {
					nonTrivial[label] = true
				}
				e.oblige("post", label, t, props, en.Src)
			}
		}
		e.perPathPosts = false
		for i, en := range e.C.Ensures {
			label := en.Label
			if label == "" {
				label = fmt.Sprintf("%d", i+1)
			}
			if !nonTrivial[label] && clauseOn(en) && clauseEmit(en) {
				// vacuity guard: the clause folds to `true` on every return path
				e.root().notes = append(e.root().notes, fmt.Sprintf("VACUOUS? clause post:%s of %s is syntactically true on every return path (%s)", label, FuncKey(e.Fn), en.Src))
			}
		}
		e.exit, e.results, e.exitCond, e.curReach, e.curState = mExit, mResults, mCond, mReach, mState
	} else {
		for i, en := range e.C.Ensures {
			if !clauseOn(en) || !clauseEmit(en) {
				continue
			}
			t := e.evalContractBool(en.Expr, env, "ensures")
			label := en.Label
			if label == "" {
				label = fmt.Sprintf("%d", i+1)
			}
			props := en.Props
			if len(props) == 0 {
				props = e.C.Props
			}
			e.oblige("post", label, t, props, en.Src)
		}
	}
	if e.C.Flags["readonly"] {
		e.checkReadonly(nil)
	} else if e.C.Flags["readonly_model"] || e.C.Flags["readonly_receiver"] {
		// readonly_model: the frame restricted to the components of the authorization-model types (package openfgav1): "the
		// model given to the function is not written", without claiming anything about the function's own object graph.
		// readonly_receiver: the frame restricted to the fields of the receiver's struct type: "the method keeps no state in
		// its receiver" (C13: the result of a call does not depend on earlier calls on the same builder/validator).
		recvPrefix := ""
		if e.C.Flags["readonly_receiver"] && e.Fn.Signature.Recv() != nil {
			rt := e.Fn.Signature.Recv().Type()
			if p, ok := rt.(*types.Pointer); ok {
				rt = p.Elem()
			}
			if _, ok := rt.Underlying().(*types.Struct); ok {
				recvPrefix = "F$" + shortKey(rt) + "."
			}
		}
		model := e.C.Flags["readonly_model"]
		e.checkReadonly(func(n string) bool {
			return model && strings.Contains(n, "openfgav1") || recvPrefix != "" && strings.HasPrefix(n, recvPrefix)
		})
	}
	for i, cv := range e.C.Covers {
		t := e.evalContractBool(cv.Expr, env, "cover")
		props := cv.Props
		if len(props) == 0 {
			props = e.C.Props
		}
		key := "cover:" + labelOr(cv.Label, i)
		e.counters[key]++
		o := &Obligation{Name: fmt.Sprintf("%s#%s:%d", FuncKey(e.Fn), key, e.counters[key]), Kind: "cover", Fn: FuncKey(e.Fn), Props: props,
			NAssume: len(e.assumes), Goal: And(e.exitCond, t), Src: cv.Src, exec: e, Cover: true}
		e.obls = append(e.obls, o)
	}
}

// checkReadonly emits frame obligations: every heap component that may have changed agrees with the entry heap on
// every object that existed at entry.
func (e *Exec) checkReadonly(keep func(string) bool) {
	names := map[string]bool{}
	for _, n := range e.exit.CompNames() {
		names[n] = true
	}
	var ks []string
	for k := range names {
		ks = append(ks, k)
	}
	sort.Strings(ks)
	for _, n := range ks {
		srt := allSorts.m()[n]
		if !srt.IsArray() || keep != nil && !keep(n) {
			continue
		}
		now := e.exit.Get(n, srt)
		then := e.entry.Get(n, srt)
		if now == then {
			continue
		}
		r := BoundVar("r", SInt)
		cond := Forall([]*Term{r}, Implies(Lt(RootOf(r), e.entry.next), Eq(Select(now, r), Select(then, r))))
		e.oblige("frame", "readonly:"+n, cond, []string{"C13"}, "objects existing at entry are not modified ("+n+")")
	}
}
