package main

// Replay of solver counterexamples on the real code (DESIGN.md 2.5): the model's input values are turned into Go
// literals, the real function is called from an in-package test injected with `go test -overlay`, and the real
// outputs are compared with the outputs the model predicts. If they agree, the real code shows the behaviour that
// the solver evaluated the contract on (and found it false): the counterexample is confirmed.

import (
	"encoding/json"
	"fmt"
	"go/types"
	"os"
	"os/exec"
	"path/filepath"
	"regexp"
	"strconv"
	"strings"
	"time"
)

// parseGetValue parses "((name value) (name value) ...)" from solver output.
func parseGetValue(out string) map[string]string {
	res := map[string]string{}
	i := strings.Index(out, "((")
	if i < 0 {
		return res
	}
	s := out[i+1:]
	// tokenise s-expressions at depth 1
	depth := 0
	start := -1
	inStr := false
	for j := 0; j < len(s); j++ {
		c := s[j]
		if inStr {
			if c == '"' {
				if j+1 < len(s) && s[j+1] == '"' {
					j++
					continue
				}
				inStr = false
			}
			continue
		}
		switch c {
		case '"':
			inStr = true
		case '(':
			if depth == 0 {
				start = j
			}
			depth++
		case ')':
			depth--
			if depth == 0 && start >= 0 {
				item := s[start+1 : j]
				k := strings.IndexAny(item, " \n")
				if k > 0 {
					res[strings.TrimSpace(item[:k])] = strings.TrimSpace(item[k+1:])
				}
				start = -1
			}
			if depth < 0 {
				return res
			}
		}
	}
	return res
}

var uEsc = regexp.MustCompile(`\\u\{([0-9a-fA-F]+)\}|\\u([0-9a-fA-F]{4})`)

// smtStringToGo decodes an SMT-LIB string literal value.
func smtStringToGo(v string) (string, bool) {
	v = strings.TrimSpace(v)
	if len(v) < 2 || v[0] != '"' || v[len(v)-1] != '"' {
		return "", false
	}
	body := strings.ReplaceAll(v[1:len(v)-1], `""`, `"`)
	body = uEsc.ReplaceAllStringFunc(body, func(m string) string {
		sm := uEsc.FindStringSubmatch(m)
		h := sm[1]
		if h == "" {
			h = sm[2]
		}
		n, _ := strconv.ParseInt(h, 16, 32)
		return string(rune(n))
	})
	return body, true
}

func smtIntToGo(v string) (int64, bool) {
	v = strings.TrimSpace(v)
	v = strings.ReplaceAll(strings.ReplaceAll(strings.ReplaceAll(v, "(", ""), ")", ""), " ", "")
	n, err := strconv.ParseInt(v, 10, 64)
	return n, err == nil
}

func goLiteral(v string, t types.Type) (string, bool) {
	b, ok := t.Underlying().(*types.Basic)
	if !ok {
		return "", false
	}
	switch {
	case b.Info()&types.IsString != 0:
		s, ok := smtStringToGo(v)
		if !ok {
			return "", false
		}
		return types.TypeString(t, func(p *types.Package) string { return "" }) + "(" + strconv.Quote(s) + ")", true
	case b.Info()&types.IsBoolean != 0:
		return strings.TrimSpace(v), v == "true" || v == "false"
	case b.Info()&types.IsInteger != 0:
		n, ok := smtIntToGo(v)
		if !ok {
			return "", false
		}
		return fmt.Sprintf("%s(%d)", types.TypeString(t, func(p *types.Package) string { return "" }), n), true
	}
	return "", false
}

func tryReplay(p *Program, r *oblResult, verif string) map[string]any {
	o := r.O
	if o.exec == nil || o.exec.Fn == nil {
		return nil
	}
	model := r.R.Output
	if r.R.Status != "sat" {
		model = r.R.Candidate
	}
	if !strings.Contains(model, "((rp_") {
		return nil
	}
	fn := o.exec.Fn
	if fn.Signature.Recv() != nil || fn.Pkg == nil || fn.Parent() != nil {
		return map[string]any{"confirmed": false, "reason": "replay supports plain package-level functions with basic parameters only"}
	}
	vals := parseGetValue(model)
	var args []string
	inputs := map[string]string{}
	for _, prm := range fn.Params {
		switch t := prm.Type().Underlying().(type) {
		case *types.Basic:
			v, ok := vals["rp_in_"+prm.Name()]
			if !ok {
				return map[string]any{"confirmed": false, "reason": "model has no value for " + prm.Name()}
			}
			lit, ok := goLiteral(v, prm.Type())
			if !ok {
				return map[string]any{"confirmed": false, "reason": "cannot turn model value into a Go literal: " + v}
			}
			args = append(args, lit)
			inputs[prm.Name()] = lit
		case *types.Slice:
			if sortOf(t.Elem()) != SString {
				return map[string]any{"confirmed": false, "reason": "unsupported parameter type " + prm.Type().String()}
			}
			n, ok := smtIntToGo(vals["rp_len_"+prm.Name()])
			if !ok || n < 0 || n > 6 {
				return map[string]any{"confirmed": false, "reason": "model slice too long to rebuild"}
			}
			var els []string
			for i := int64(0); i < n; i++ {
				s, ok := smtStringToGo(vals[fmt.Sprintf("rp_el_%s_%d", prm.Name(), i)])
				if !ok {
					return map[string]any{"confirmed": false, "reason": "model has no value for a slice element"}
				}
				els = append(els, strconv.Quote(s))
			}
			lit := "[]string{" + strings.Join(els, ", ") + "}"
			args = append(args, lit)
			inputs[prm.Name()] = lit
		default:
			return map[string]any{"confirmed": false, "reason": "unsupported parameter type " + prm.Type().String()}
		}
	}
	nres := fn.Signature.Results().Len()
	var lhs, prints []string
	for i := 0; i < nres; i++ {
		lhs = append(lhs, fmt.Sprintf("r%d", i))
		prints = append(prints, fmt.Sprintf(`fmt.Printf("GOVC-REPLAY out%d=%%q\n", fmt.Sprint(r%d))`, i, i))
	}
	call := fmt.Sprintf("%s(%s)", fn.Name(), strings.Join(args, ", "))
	if nres > 0 {
		call = strings.Join(lhs, ", ") + " := " + call
	}
	pkgDir := filepath.Dir(p.Fset.Position(fn.Pos()).Filename)
	src := fmt.Sprintf("package %s\n\nimport (\n\t\"fmt\"\n\t\"testing\"\n)\n\nfunc TestGovcReplay(t *testing.T) {\n\tdefer func() {\n\t\tif x := recover(); x != nil {\n\t\t\tfmt.Printf(\"GOVC-REPLAY panic=%%q\\n\", fmt.Sprint(x))\n\t\t}\n\t}()\n\t%s\n\t%s\n}\n",
		fn.Pkg.Pkg.Name(), call, strings.Join(prints, "\n\t"))
	tmp, err := os.MkdirTemp("", "govc-replay")
	if err != nil {
		return nil
	}
	defer os.RemoveAll(tmp)
	testFile := filepath.Join(tmp, "zz_govc_replay_test.go")
	os.WriteFile(testFile, []byte(src), 0o644)
	ov := map[string]any{"Replace": map[string]string{filepath.Join(pkgDir, "zz_govc_replay_test.go"): testFile}}
	ovData, _ := json.Marshal(ov)
	ovFile := filepath.Join(tmp, "ov.json")
	os.WriteFile(ovFile, ovData, 0o644)
	cmd := exec.Command("go", "test", "-overlay", ovFile, "-vet=off", "-count=1", "-timeout", "60s", "-v", "-run", "^TestGovcReplay$", ".")
	cmd.Dir = pkgDir
	cmd.Env = append(os.Environ(), "GOFLAGS=-mod=mod", "GOPROXY=off", "GOSUMDB=off", "GOTOOLCHAIN=local")
	t0 := time.Now()
	outB, _ := cmd.CombinedOutput()
	out := string(outB)
	rep := map[string]any{"inputs": inputs, "test_source": src, "go_test_output": firstLines(out, 30), "wall_s": time.Since(t0).Seconds()}
	real := map[string]string{}
	for _, l := range strings.Split(out, "\n") {
		if strings.HasPrefix(l, "GOVC-REPLAY ") {
			kv := strings.SplitN(strings.TrimPrefix(l, "GOVC-REPLAY "), "=", 2)
			if len(kv) == 2 {
				if s, err := strconv.Unquote(kv[1]); err == nil {
					real[kv[0]] = s
				}
			}
		}
	}
	rep["real_outputs"] = real
	if _, panicked := real["panic"]; panicked {
		rep["confirmed"] = o.Kind == "safety"
		rep["reason"] = "the real function panics on the model's input"
		return rep
	}
	if o.Kind != "post" {
		rep["confirmed"] = false
		rep["reason"] = "obligation is not a postcondition; the real function returned normally on the model's input"
		return rep
	}
	predicted := map[string]string{}
	agree := nres > 0
	for i := 0; i < nres; i++ {
		v, ok := vals[fmt.Sprintf("rp_out_%d", i)]
		if !ok {
			agree = false
			continue
		}
		var want string
		if s, ok := smtStringToGo(v); ok {
			want = s
		} else if n, ok := smtIntToGo(v); ok {
			want = fmt.Sprint(n)
		} else {
			want = strings.TrimSpace(v)
		}
		predicted[fmt.Sprintf("out%d", i)] = want
		if real[fmt.Sprintf("out%d", i)] != want {
			agree = false
		}
	}
	rep["model_outputs"] = predicted
	rep["confirmed"] = agree
	if agree {
		rep["reason"] = "the real function returns exactly the outputs of the counter-model, on which the solver evaluates the contract clause to false"
	} else {
		rep["reason"] = "real outputs differ from the counter-model's outputs (spurious model or unmodelled behaviour)"
	}
	return rep
}
