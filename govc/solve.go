package main

import (
	"sort"
	"go/types"
	"regexp"
	"strconv"
	"bytes"
	"context"
	"crypto/sha256"
	"encoding/hex"
	"fmt"
	"os"
	"os/exec"
	"path/filepath"
	"strings"
	"sync"
	"time"
)

type SolverResult struct {
	Status  string // unsat, sat, unknown, timeout, error
	Solver  string
	Ms      int64
	Output  string
	Tried   []string
	Cached  bool
	Script  string
	Disagree bool
	Candidate string // model found by the relaxed search query (to be validated by replay)
}

type solverSpec struct {
	name string
	cmd  func(file string, timeoutMs int) []string
	prep func(script string) string
}

var solvers = []solverSpec{
	{"z3-new", func(f string, t int) []string { return []string{"z3-new", fmt.Sprintf("-t:%d", t), f} }, func(s string) string { return s }},
	{"cvc5", func(f string, t int) []string {
		return []string{"cvc5", fmt.Sprintf("--tlimit=%d", t), "--strings-exp", "--produce-models", f}
	}, func(s string) string { return "(set-logic ALL)\n" + s }},
	{"z3", func(f string, t int) []string { return []string{"z3", fmt.Sprintf("-t:%d", t), f} }, func(s string) string { return s }},
	{"cvc5-fsq", func(f string, t int) []string {
		return []string{"cvc5", fmt.Sprintf("--tlimit=%d", t), "--strings-exp", "--produce-models", "--full-saturate-quant", f}
	}, func(s string) string { return "(set-logic ALL)\n" + s }},
	// default auto-config starves MBQI; (key, index) invariants over maps of slices have no E-matching pattern and need it
	{"z3-new-noauto", func(f string, t int) []string {
		return []string{"z3-new", "smt.auto_config=false", fmt.Sprintf("-t:%d", t), f}
	}, func(s string) string { return s }},
}

func runSolver(sp solverSpec, script string, dir string, name string, timeoutMs int) (string, string, int64) {
	return runSolverCtx(context.Background(), sp, script, dir, name, timeoutMs)
}

func runSolverCtx(parent context.Context, sp solverSpec, script string, dir string, name string, timeoutMs int) (string, string, int64) {
	file := filepath.Join(dir, name+"."+sp.name+".smt2")
	if err := os.WriteFile(file, []byte(sp.prep(script)), 0o644); err != nil {
		return "error", err.Error(), 0
	}
	args := sp.cmd(file, timeoutMs)
	ctx, cancel := context.WithTimeout(parent, time.Duration(timeoutMs+2000)*time.Millisecond)
	defer cancel()
	t0 := time.Now()
	cmd := exec.CommandContext(ctx, args[0], args[1:]...)
	var out bytes.Buffer
	cmd.Stdout = &out
	cmd.Stderr = &out
	_ = cmd.Run()
	ms := time.Since(t0).Milliseconds()
	text := out.String()
	for _, l := range strings.Split(text, "\n") {
		first := strings.TrimSpace(l)
		if first == "" || strings.HasPrefix(first, "WARNING") || strings.HasPrefix(first, "(warning") {
			continue
		}
		switch first {
		case "unsat", "sat", "unknown":
			return first, text, ms
		}
		break
	}
	if ctx.Err() != nil || strings.Contains(text, "timeout") || strings.Contains(text, "interrupted") {
		return "timeout", text, ms
	}
	return "error", text, ms
}

var cacheMu sync.Mutex

var loopCap = regexp.MustCompile(`\(_ re\.loop (\d+) (\d+)\)`)

func cacheDir() string { return os.Getenv("GOVC_CACHE") }

// Solve runs the portfolio on a script (which must end before check-sat; we append check-sat and model queries).
// SolveFast: the three main solvers race for a definitive answer within timeoutMs; no fall-back members, no model search.
func SolveFast(script string, workDir string, name string, timeoutMs int) *SolverResult {
	full := script + "(check-sat)\n"
	res := &SolverResult{Script: full, Status: "unknown"}
	safe := strings.NewReplacer("/", "_", "(", "", ")", "", "*", "P", " ", "", ":", "_", "#", "-", "$", "S").Replace(name)
	if len(safe) > 120 {
		h := sha256.Sum256([]byte(name))
		safe = safe[:120] + hex.EncodeToString(h[:4])
	}
	type answer struct {
		sp solverSpec
		st string
		ms int64
	}
	racers := []solverSpec{solvers[0], solvers[1], solvers[2]}
	ch := make(chan answer, len(racers))
	ctx, cancel := context.WithCancel(context.Background())
	defer cancel()
	for _, sp := range racers {
		sp := sp
		go func() {
			st, _, ms := runSolverCtx(ctx, sp, full, workDir, safe, timeoutMs)
			ch <- answer{sp, st, ms}
		}()
	}
	for k := 0; k < len(racers); k++ {
		a := <-ch
		res.Tried = append(res.Tried, fmt.Sprintf("%s:%s:%dms", a.sp.name, a.st, a.ms))
		if a.ms > res.Ms {
			res.Ms = a.ms
		}
		if a.st == "unsat" || a.st == "sat" {
			res.Status, res.Solver = a.st, a.sp.name
			break
		}
	}
	return res
}

// SolveProbe: a vacuity probe is only looking for a quick `unsat` (inconsistent assumptions); two solvers, 2 s.
func SolveProbe(script string, workDir string, name string) *SolverResult {
	full := script + "(check-sat)\n"
	res := &SolverResult{Script: full, Status: "unknown"}
	safe := strings.NewReplacer("/", "_", "(", "", ")", "", "*", "P", " ", "", ":", "_", "#", "-", "$", "S").Replace(name)
	if len(safe) > 120 {
		h := sha256.Sum256([]byte(name))
		safe = safe[:120] + hex.EncodeToString(h[:4])
	}
	type answer struct {
		sp solverSpec
		st string
		ms int64
	}
	ch := make(chan answer, 2)
	ctx, cancel := context.WithCancel(context.Background())
	defer cancel()
	for _, sp := range []solverSpec{solvers[0], solvers[1]} {
		sp := sp
		go func() {
			st, _, ms := runSolverCtx(ctx, sp, full, workDir, safe, 2000)
			ch <- answer{sp, st, ms}
		}()
	}
	for k := 0; k < 2; k++ {
		a := <-ch
		res.Tried = append(res.Tried, fmt.Sprintf("%s:%s:%dms", a.sp.name, a.st, a.ms))
		if a.ms > res.Ms {
			res.Ms = a.ms
		}
		if a.st == "unsat" || a.st == "sat" {
			res.Status, res.Solver = a.st, a.sp.name
			break
		}
	}
	return res
}

func Solve(script string, workDir string, name string, timeoutMs int, thorough bool, values []string, noHint bool) *SolverResult {
	full := script + "(check-sat)\n"
	if len(values) > 0 {
		full += "(get-value (" + strings.Join(values, " ") + "))\n"
	}
	res := &SolverResult{Script: full}
	h := sha256.Sum256([]byte(full))
	key := hex.EncodeToString(h[:16])
	if cd := cacheDir(); cd != "" && !thorough {
		if data, err := os.ReadFile(filepath.Join(cd, key)); err == nil {
			parts := strings.SplitN(string(data), "\n", 3)
			if len(parts) == 3 && parts[0] == "unsat" {
				res.Status, res.Solver, res.Cached = parts[0], parts[1], true
				res.Output = parts[2]
				return res
			}
		}
	}
	safe := strings.NewReplacer("/", "_", "(", "", ")", "", "*", "P", " ", "", ":", "_", "#", "-", "$", "S").Replace(name)
	if len(safe) > 120 {
		safe = safe[:120] + key[:8]
	}
	var unsatBy, satBy string
	var satOut string
	// the solvers race on the same query; the first definitive answer wins (thorough tier: two different solvers must
	// have answered whenever two terminate)
	type answer struct {
		sp  solverSpec
		st  string
		out string
		ms  int64
	}
	ctx, cancelAll := context.WithCancel(context.Background())
	racers := []solverSpec{solvers[0], solvers[1], solvers[2]}
	ch := make(chan answer, len(racers))
	for _, sp := range racers {
		sp := sp
		go func() {
			st, out, ms := runSolverCtx(ctx, sp, full, workDir, safe, timeoutMs)
			ch <- answer{sp, st, out, ms}
		}()
	}
	consulted := map[string]bool{}
	pending := len(racers)
	for pending > 0 {
		a := <-ch
		pending--
		if ctx.Err() != nil && a.st != "unsat" && a.st != "sat" {
			continue // cancelled loser
		}
		res.Tried = append(res.Tried, fmt.Sprintf("%s:%s:%dms", a.sp.name, a.st, a.ms))
		if a.ms > res.Ms {
			res.Ms = a.ms
		}
		switch a.st {
		case "unsat":
			if unsatBy == "" {
				unsatBy = a.sp.name
			}
			consulted[a.sp.name] = true
		case "sat":
			if satBy == "" {
				satBy, satOut = a.sp.name, a.out
			}
			consulted[a.sp.name] = true
		case "error":
			if res.Output == "" {
				res.Output = a.sp.name + ": " + firstLines(a.out, 5)
			}
		}
		if !thorough && (unsatBy != "" || satBy != "") {
			break
		}
		if thorough && len(consulted) >= 2 {
			break
		}
	}
	cancelAll()
	if unsatBy == "" && satBy == "" {
		// last resort: enumerative instantiation (cvc5) and z3 without auto-configuration, side by side
		ctx2, cancel2 := context.WithCancel(context.Background())
		ch2 := make(chan answer, 2)
		for _, sp := range []solverSpec{solvers[3], solvers[4]} {
			sp := sp
			go func() {
				st, out, ms := runSolverCtx(ctx2, sp, full, workDir, safe, timeoutMs)
				ch2 <- answer{sp, st, out, ms}
			}()
		}
		var worst int64
		for k := 0; k < 2; k++ {
			a := <-ch2
			if ctx2.Err() != nil && a.st != "unsat" && a.st != "sat" {
				continue
			}
			res.Tried = append(res.Tried, fmt.Sprintf("%s:%s:%dms", a.sp.name, a.st, a.ms))
			if a.ms > worst {
				worst = a.ms
			}
			if a.st == "unsat" {
				unsatBy = a.sp.name
				break
			} else if a.st == "sat" && a.sp.name == solvers[3].name {
				satBy, satOut = a.sp.name, a.out
				break
			}
		}
		cancel2()
		res.Ms += worst
	}
	if unsatBy == "" && satBy == "" && !noHint && len(values) > 0 {
		// model search only (never a verdict): the same query with counted repetitions capped, which lets the solvers
		// construct short witnesses. A candidate found here counts only after it has been replayed on the real code.
		hinted := loopCap.ReplaceAllStringFunc(full, func(m string) string {
			sm := loopCap.FindStringSubmatch(m)
			a, _ := strconv.Atoi(sm[1])
			b, _ := strconv.Atoi(sm[2])
			if a > 4 {
				a = 4
			}
			if b > 6 {
				b = 6
			}
			return fmt.Sprintf("(_ re.loop %d %d)", a, b)
		})
		// quantified assumptions are dropped as well (weaker assumptions, more candidate models)
		var kept []string
		for _, l := range strings.Split(hinted, "\n") {
			if strings.HasPrefix(l, "(assert ") && (strings.Contains(l, "(forall ") || strings.Contains(l, "(exists ")) && !strings.HasPrefix(l, "(assert (not ") {
				continue
			}
			kept = append(kept, l)
		}
		hinted = strings.Join(kept, "\n")
		var bounds []string
		for _, v := range values {
			if strings.HasPrefix(v, "rp_len_") {
				bounds = append(bounds, fmt.Sprintf("(assert (<= %s 3))", v))
			}
		}
		if len(bounds) > 0 {
			hinted = strings.Replace(hinted, "(check-sat)", strings.Join(bounds, "\n")+"\n(check-sat)", 1)
		}
		for _, sp := range []solverSpec{solvers[1], solvers[0]} {
			st, out, ms := runSolver(sp, hinted, workDir, safe+".search", timeoutMs)
			res.Tried = append(res.Tried, fmt.Sprintf("%s(model-search):%s:%dms", sp.name, st, ms))
			res.Ms += ms
			if strings.Contains(out, "((rp_") {
				res.Candidate = out
				break
			}
		}
	}
	switch {
	case unsatBy != "" && satBy != "":
		res.Status, res.Disagree = "disagree", true
		res.Solver = unsatBy + " vs " + satBy
	case unsatBy != "":
		res.Status, res.Solver = "unsat", unsatBy
	case satBy != "":
		res.Status, res.Solver, res.Output = "sat", satBy, satOut
	default:
		res.Status = "unknown"
	}
	if cd := cacheDir(); cd != "" && res.Status == "unsat" {
		_ = os.MkdirAll(cd, 0o755)
		_ = os.WriteFile(filepath.Join(cd, key), []byte(res.Status+"\n"+res.Solver+"\n"+res.Output), 0o644)
	}
	return res
}

func firstLines(s string, n int) string {
	ls := strings.Split(s, "\n")
	if len(ls) > n {
		ls = ls[:n]
	}
	return strings.Join(ls, "\n")
}

// ReplayTerms lists the closed terms whose model values a replay needs (inputs and predicted outputs).
func ReplayTerms(o *Obligation) []NamedTerm {
	e := o.exec
	if e == nil || e.Fn == nil || o.Cover {
		return nil
	}
	var out []NamedTerm
	add := func(name string, t *Term) {
		if t != nil && t.flags&flagHasBound == 0 {
			out = append(out, NamedTerm{name, t})
		}
	}
	for _, prm := range e.Fn.Params {
		v, _ := e.vals[prm].(*Term)
		if v == nil {
			continue
		}
		switch v.Sort.Base() {
		case SInt, SBool, SString:
			add("rp_in_"+prm.Name(), v)
		case SSlice:
			add("rp_len_"+prm.Name(), SLen(v))
			if st, ok := prm.Type().Underlying().(*types.Slice); ok && sortOf(st.Elem()) == SString {
				for i := 0; i < 6; i++ {
					add(fmt.Sprintf("rp_el_%s_%d", prm.Name(), i), e.elemAt(e.entry, v, IntLit(int64(i)), SString))
				}
			}
		}
	}
	if o.Kind == "post" {
		for i, r := range e.results {
			if t, ok := r.(*Term); ok {
				switch t.Sort.Base() {
				case SInt, SBool, SString:
					add(fmt.Sprintf("rp_out_%d", i), t)
				}
			}
		}
	}
	return out
}

func skolemizeGoal(g *Term) (*Term, []*Term) {
	var ws []*Term
	var rec func(t *Term) *Term
	rec = func(t *Term) *Term {
		switch {
		case t.Op == "forall":
			m := map[int]*Term{}
			for _, v := range t.Bound {
				w := Fresh("w$"+strings.SplitN(strings.Trim(v.Name, "|"), "?", 2)[0], v.Sort)
				ws = append(ws, w)
				m[v.id] = w
			}
			return rec(Subst(t.Args[0], m))
		case t.Op == "=>":
			return Implies(t.Args[0], rec(t.Args[1]))
		case t.Op == "and":
			// conjunctions are left alone below this point (their quantifiers stay)
			return t
		}
		return t
	}
	return rec(g), ws
}

var splitMode = 0

// splitCandidate finds, in the skolemised goal  g1 => (g2 => ... (and ... (< w T) ...) => body), an integer witness w with an
// upper bound T.
func splitCandidate(goal *Term, ws []*Term) (*Term, *Term) {
	isW := map[*Term]bool{}
	for _, w := range ws {
		if w.Sort == SInt {
			isW[w] = true
		}
	}
	var look func(t *Term) (*Term, *Term)
	look = func(t *Term) (*Term, *Term) {
		switch t.Op {
		case "and":
			for _, a := range t.Args {
				if w, b := look(a); w != nil {
					return w, b
				}
			}
		case "<":
			if len(t.Args) == 2 && isW[t.Args[0]] {
				return t.Args[0], t.Args[1]
			}
		}
		return nil, nil
	}
	for t := goal; t != nil && t.Op == "=>" && len(t.Args) == 2; t = t.Args[1] {
		if w, b := look(t.Args[0]); w != nil {
			return w, b
		}
	}
	return nil, nil
}

// ObligationScriptsSplit: the two cases of the last-index split (nil when the goal has no bounded integer witness), each
// as a list of variants (full context, loop-modular slice, 1-hop and 2-hop slice). The obligation is proved when BOTH
// cases have an unsat variant.
func ObligationScriptsSplit(o *Obligation) [][]string {
	if o.Cover {
		return nil
	}
	var out [][]string
	for _, m := range []int{1, 2} {
		var variants []string
		for _, h := range []int{0, sliceLoop, 1} {
			if h == sliceLoop && o.LoopFrom == 0 {
				continue
			}
			splitMode, sliceHops = m, h
			sc, _ := obligationScript(o, true)
			splitMode, sliceHops = 0, 0
			if sc == "" {
				return nil
			}
			dup := false
			for _, v := range variants {
				if v == sc {
					dup = true
				}
			}
			if !dup {
				variants = append(variants, sc)
			}
		}
		out = append(out, variants)
	}
	return out
}

// ObligationScript renders the SMT script for one obligation.
func ObligationScript(o *Obligation) (string, []string) {
	return obligationScript(o, true)
}

// ObligationScriptPlain leaves out the optional extra assumptions (earlier clauses of the same conjunction).
func ObligationScriptPlain(o *Obligation) (string, []string) {
	return obligationScript(o, false)
}

// specSymbols collects the uninterpreted spec-function symbols (opaque functions and recursive specs) of a term.
func specSymbols(t *Term, out map[string]bool, seen map[*Term]bool) {
	if t == nil || seen[t] {
		return
	}
	seen[t] = true
	if strings.HasPrefix(t.Op, "spec_") {
		out[t.Op] = true
	}
	for _, a := range t.Args {
		specSymbols(a, out, seen)
	}
	for _, ps := range t.Pats {
		for _, p := range ps {
			specSymbols(p, out, seen)
		}
	}
}

// ---------- assumption slicing ----------
// Dropping assumptions is sound for a validity query (it can only make a provable goal unprovable), so an obligation
// that the solvers do not decide in its full context is tried again on a SLICE of it: the assumptions connected to the
// goal through shared uninterpreted symbols within a number of hops, ignoring symbols that occur almost everywhere.
// Only `unsat` answers of sliced queries are used.

var symCache = map[*Term][]string{}

func termSymbols(t *Term) []string {
	if t == nil {
		return nil
	}
	if r, ok := symCache[t]; ok {
		return r
	}
	set := map[string]bool{}
	var visit func(x *Term, seen map[*Term]bool)
	visit = func(x *Term, seen map[*Term]bool) {
		if x == nil || seen[x] {
			return
		}
		seen[x] = true
		if x.Op == "" {
			if _, ok := TS.decls[x.Name]; ok {
				set[x.Name] = true
			}
		} else if _, ok := TS.decls[x.Op]; ok {
			set[x.Op] = true
		}
		for _, a := range x.Args {
			visit(a, seen)
		}
	}
	visit(t, map[*Term]bool{})
	var out []string
	for k := range set {
		out = append(out, k)
	}
	sort.Strings(out)
	symCache[t] = out
	return out
}

// coreOf strips path guards: connectivity is judged on the fact, not on the path condition it holds under (path
// conditions mention most of the function and would connect everything with everything).
func coreOf(t *Term) *Term {
	for t != nil && t.Op == "=>" && len(t.Args) == 2 {
		t = t.Args[1]
	}
	return t
}

func sliceAsserts(asserts0 []*Term, goal *Term, hops int) []*Term {
	asserts := make([]*Term, len(asserts0))
	for i, a := range asserts0 {
		asserts[i] = coreOf(a)
	}
	goal = coreOf(goal)
	freq := map[string]int{}
	for _, a := range asserts {
		for _, s := range termSymbols(a) {
			freq[s]++
		}
	}
	limit := len(asserts) / 4
	if limit < 8 {
		limit = 8
	}
	common := func(s string) bool { return freq[s] > limit }
	rel := map[string]bool{}
	for _, s := range termSymbols(goal) {
		rel[s] = true // symbols of the goal always count, also the common ones
	}
	in := make([]bool, len(asserts))
	// assumptions without any rare symbol are general facts (definitions of helper functions, well-formedness of the
	// heap): always kept
	for i, a := range asserts {
		rare := false
		for _, s := range termSymbols(a) {
			if !common(s) {
				rare = true
				break
			}
		}
		if !rare {
			in[i] = true
		}
	}
	for h := 0; h < hops; h++ {
		add := map[string]bool{}
		for i, a := range asserts {
			if in[i] {
				continue
			}
			hit := false
			for _, s := range termSymbols(a) {
				if rel[s] && (!common(s) || h == 0) {
					hit = true
					break
				}
			}
			if hit {
				in[i] = true
				for _, s := range termSymbols(a) {
					if !common(s) {
						add[s] = true
					}
				}
			}
		}
		for s := range add {
			rel[s] = true
		}
	}
	var out []*Term
	for i := range asserts {
		if in[i] {
			out = append(out, asserts0[i])
		}
	}
	return out
}

// ObligationScriptSliced: the query with the assumptions sliced to `hops` hops around the goal ("" for covers).
func ObligationScriptSliced(o *Obligation, hops int) string {
	if o.Cover || hops == sliceLoop && o.LoopFrom == 0 {
		return ""
	}
	sliceHops = hops
	defer func() { sliceHops = 0 }()
	sc, _ := obligationScript(o, true)
	return sc
}

var sliceHops = 0

const sliceLoop = -1 // loop-modular slice: entry assumptions + everything since the head of the enclosing loop

func obligationScript(o *Obligation, withExtra bool) (string, []string) {
	var asserts []*Term
	if o.exec != nil {
		asserts = append(asserts, o.exec.globalAssumes...)
		if sliceHops == sliceLoop && o.LoopFrom > 0 && o.LoopFrom >= o.EntryN && o.LoopFrom <= o.NAssume {
			asserts = append(asserts, o.exec.assumes[:o.EntryN]...)
			asserts = append(asserts, o.exec.assumes[o.LoopFrom:o.NAssume]...)
		} else {
			asserts = append(asserts, o.exec.assumes[:o.NAssume]...)
		}
	}
	if withExtra {
		asserts = append(asserts, o.Extra...)
	}
	if o.exec != nil && len(o.exec.axiomTerms) > 0 {
		// package axioms: keep those whose opaque spec symbols occur in the rest of the query
		used := map[string]bool{}
		for _, a := range asserts {
			if _, isAx := o.exec.axiomTerms[a]; !isAx {
				specSymbols(a, used, map[*Term]bool{})
			}
		}
		specSymbols(o.Goal, used, map[*Term]bool{})
		var kept []*Term
		for _, a := range asserts {
			if _, isAx := o.exec.axiomTerms[a]; isAx {
				mine := map[string]bool{}
				specSymbols(a, mine, map[*Term]bool{})
				rel := len(mine) == 0
				for sname := range mine {
					if used[sname] {
						rel = true
					}
				}
				if !rel {
					continue
				}
			}
			kept = append(kept, a)
		}
		asserts = kept
	}
	named := ReplayTerms(o)
	if sliceHops > 0 && !o.Cover {
		asserts = sliceAsserts(asserts, o.Goal, sliceHops)
		named = nil
	}
	if sliceHops == sliceLoop {
		named = nil
	}
	if o.Cover {
		asserts = append(asserts, o.Goal)
	} else {
		// skolemise the outermost universal quantifiers of the goal: reach => forall xs. B  becomes  reach && !B[ws]
		goal, ws := skolemizeGoal(o.Goal)
		asserts = append(asserts, Not(goal))
		if splitMode != 0 {
			// case split on the last index of a bounded universal goal: w < T  is  w = T-1  or  w < T-1
			w, bound := splitCandidate(goal, ws)
			if w == nil {
				return "", nil
			}
			last := Sub(bound, IntLit(1))
			if splitMode == 1 {
				asserts = append(asserts, Eq(w, last))
			} else {
				asserts = append(asserts, Lt(w, last))
			}
		}
		for i, w := range ws {
			named = append(named, NamedTerm{fmt.Sprintf("rp_w_%d_%s", i, strings.Trim(strings.NewReplacer("?", "_", "|", "", "!", "_").Replace(w.Name), "_")), w})
		}
	}
	var names []string
	for _, nt := range named {
		names = append(names, nt.Name)
	}
	return Script(asserts, preambleCommon, ScriptOpts{Named: named}), names
}
