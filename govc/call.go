package main

// Calls: builtins, models of library functions, contracts of functions under contract, inlining of small
// loop-free helpers, and havoc for everything else.

import (
	"fmt"
	"go/types"
	"sort"
	"strings"

	"golang.org/x/tools/go/ssa"
)

func fullName(fn *ssa.Function) string {
	if o := fn.Origin(); o != nil {
		return o.String()
	}
	return fn.String()
}

func (e *Exec) call(in ssa.Instruction, c *ssa.CallCommon) Val {
	var args []Val
	for _, a := range c.Args {
		args = append(args, e.val(a))
	}
	if c.IsInvoke() {
		recv := e.term(c.Value)
		return e.invoke(c, recv, args)
	}
	switch f := c.Value.(type) {
	case *ssa.Builtin:
		return e.builtin(f, c, args)
	case *ssa.Function:
		return e.callFunc(f, nil, c, args)
	case *ssa.MakeClosure:
		fv := e.val(f).(*FuncVal)
		return e.callFunc(fv.Fn, fv.Bindings, c, args)
	}
	switch fv := e.val(c.Value).(type) {
	case *FuncVal:
		return e.callFunc(fv.Fn, fv.Bindings, c, args)
	case *FuncChoice:
		// guarded multi-target call
		saveReach := e.curReach
		base := e.curState
		var sts []*State
		var conds []*Term
		var rets []Val
		for i, v := range fv.Vals {
			f := v.(*FuncVal)
			e.curReach = And(saveReach, fv.Conds[i])
			e.curState = base.Clone()
			rets = append(rets, e.callFunc(f.Fn, f.Bindings, c, args))
			sts = append(sts, e.curState)
			conds = append(conds, fv.Conds[i])
		}
		e.curReach = saveReach
		e.curState = MergeStates(sts, conds)
		return e.mergeRet(rets, conds, c.Signature().Results())
	}
	// unknown function value: when its type can only be inhabited by functions of a repository package, havoc what
	// those may write
	if fs := e.P.candidatesBySignature(c.Signature()); len(fs) > 0 {
		ms := map[string]bool{}
		var names []string
		for _, f := range fs {
			names = append(names, FuncKey(f))
			for n := range e.P.FuncModset(f) {
				ms[n] = true
			}
		}
		e.root().Assumed["call through a function value of an unexported-parameter type resolves to one of: "+strings.Join(names, ", ")] = true
		return e.havocByModset(ms, c.Signature().Results(), "fnval")
	}
	e.root().Havocked["call through function value at "+e.posOf(in)] = true
	return e.havocCall(c.Signature().Results(), "fnval")
}

func (e *Exec) mergeRet(rets []Val, conds []*Term, res *types.Tuple) Val {
	if res.Len() == 0 {
		return nil
	}
	if res.Len() == 1 {
		return e.mergeVals(rets, conds, res.At(0).Type())
	}
	out := make(Tuple, res.Len())
	for i := 0; i < res.Len(); i++ {
		var vs []Val
		for _, r := range rets {
			vs = append(vs, r.(Tuple)[i])
		}
		out[i] = e.mergeVals(vs, conds, res.At(i).Type())
	}
	return out
}

// antlrObject allocates a fresh object of an ANTLR type whose embedded base objects (anonymous pointer fields) are
// themselves fresh non-nil objects (A-ANTLR-RT: constructors build complete recognizers / streams).
func (e *Exec) antlrObject(t types.Type, depth int) *Term {
	r := e.alloc()
	e.assume(Implies(e.guard(), Eq(RType(r), tagOf(t))))
	st, ok := t.Underlying().(*types.Struct)
	if !ok || depth > 3 {
		return r
	}
	for i := 0; i < st.NumFields(); i++ {
		f := st.Field(i)
		if !f.Embedded() {
			continue
		}
		if p, ok := f.Type().Underlying().(*types.Pointer); ok {
			inner := e.antlrObject(p.Elem(), depth+1)
			name := fieldComp(t, i)
			comp := e.curState.Get(name, ArraySort(SInt, sortOf(f.Type())))
			// a store, not an assumption about the current heap: the cell of a fresh object is nil in the current heap
			e.curState.Set(name, Ite(e.guard(), Store(comp, r, inner), comp))
		}
	}
	return r
}

// havocCall forgets the whole heap and returns unconstrained results.
func (e *Exec) havocCall(res *types.Tuple, tag string) Val {
	old := e.curState
	e.curState = old.HavocAll()
	e.assume(Implies(e.guard(), Ge(e.curState.next, old.next)))
	return e.freshResults(res, tag)
}

func (e *Exec) freshResults(res *types.Tuple, tag string) Val {
	mkOne := func(t types.Type) Val {
		v := Fresh("r$"+tag, sortOf(t))
		e.assumeWF(v, t, e.curState)
		return v
	}
	switch res.Len() {
	case 0:
		return nil
	case 1:
		return mkOne(res.At(0).Type())
	}
	out := make(Tuple, res.Len())
	for i := range out {
		out[i] = mkOne(res.At(i).Type())
	}
	return out
}

func (e *Exec) builtin(f *ssa.Builtin, c *ssa.CallCommon, args []Val) Val {
	switch f.Name() {
	case "len":
		switch t := c.Args[0].Type().Underlying().(type) {
		case *types.Slice:
			return SLen(e.toTerm(args[0], t))
		case *types.Basic:
			str := e.toTerm(args[0], t)
			if byteLen && str.Sort == SString {
				return ByteLen(str)
			}
			return mk("str.len", SInt, str)
		case *types.Map:
			m := e.toTerm(args[0], t)
			k, v := mapSorts(t)
			return Ite(Eq(m, IntLit(0)), IntLit(0), e.Card(e.mapDom(e.curState, m, k, v)))
		case *types.Array:
			return IntLit(t.Len())
		}
	case "cap":
		if t, ok := c.Args[0].Type().Underlying().(*types.Slice); ok {
			return SCap(e.toTerm(args[0], t))
		}
	case "append":
		st := c.Args[0].Type().Underlying().(*types.Slice)
		es := sortOf(st.Elem())
		s := e.toTerm(args[0], st)
		if len(args) == 1 {
			return s
		}
		// second arg is a slice (varargs already packed by SSA)
		xs := e.toTerm(args[1], c.Args[1].Type())
		if _, isStr := c.Args[1].Type().Underlying().(*types.Basic); isStr {
			unsupported("append(bytes, string...)")
		}
		// common case: a literal varargs slice of known length
		if elems, ok := e.literalSliceElems(xs, es); ok {
			return e.appendElems(s, elems, es)
		}
		return e.appendSlice(s, xs, es)
	case "copy":
		dt, ok1 := c.Args[0].Type().Underlying().(*types.Slice)
		_, ok2 := c.Args[1].Type().Underlying().(*types.Slice)
		if ok1 && ok2 {
			return e.copySlice(e.toTerm(args[0], dt), e.toTerm(args[1], dt), sortOf(dt.Elem()))
		}
	case "delete":
		k, v := mapSorts(c.Args[0].Type())
		e.mapDelete(e.toTerm(args[0], c.Args[0].Type()), e.toTerm(args[1], c.Args[1].Type()), k, v)
		return nil
	case "min", "max":
		a, b := e.toTerm(args[0], c.Args[0].Type()), e.toTerm(args[1], c.Args[1].Type())
		if f.Name() == "min" {
			return Ite(Le(a, b), a, b)
		}
		return Ite(Le(a, b), b, a)
	case "ssa:wrapnilchk":
		return args[0]
	}
	unsupported("builtin %s on %s", f.Name(), c.Args[0].Type())
	return nil
}

// literalSliceElems recognises a slice built over a fresh array by stores in the current state (varargs).
func (e *Exec) literalSliceElems(xs *Term, es Sort) ([]*Term, bool) {
	if xs == nilSlice {
		return nil, true
	}
	n, ok := intVal(SLen(xs))
	if !ok || n > 8 {
		return nil, false
	}
	var out []*Term
	for i := int64(0); i < n; i++ {
		out = append(out, e.elemAt(e.curState, xs, IntLit(i), es))
	}
	return out, true
}

// appendSlice models append(s, xs...) for a symbolic-length xs.
func (e *Exec) appendSlice(s, xs *Term, es Sort) *Term {
	st := e.curState
	comp := e.elems(st, es)
	n := SLen(xs)
	newLen := Add(SLen(s), n)
	inPlace := Le(newLen, SCap(s))
	bi := BoundVar("i", SInt)
	// result contents described by facts on a fresh component value
	newComp := Fresh("app$"+elemComp(es), comp.Sort)
	r := st.next
	newCap := Fresh("cap", SInt)
	res := Ite(inPlace, MkSlice(SArr(s), SOff(s), newLen, SCap(s)), MkSlice(r, IntLit(0), newLen, newCap))
	ba := BoundVar("a", SInt)
	target := SArr(res)
	facts := []*Term{
		// other arrays untouched
		Forall([]*Term{ba}, Implies(Neq(ba, target), Eq(Select(newComp, ba), Select(comp, ba))), []*Term{Select(newComp, ba)}),
		// old prefix kept
		Forall([]*Term{bi}, Implies(And(Le(IntLit(0), bi), Lt(bi, SLen(s))),
			Eq(Select(Select(newComp, target), Add(SOff(res), bi)), Select(Select(comp, SArr(s)), Add(SOff(s), bi)))),
			[]*Term{Select(Select(newComp, target), Add(SOff(res), bi))}),
		// appended part
		Forall([]*Term{bi}, Implies(And(Le(IntLit(0), bi), Lt(bi, n)),
			Eq(Select(Select(newComp, target), Add(Add(SOff(res), SLen(s)), bi)), Select(Select(comp, SArr(xs)), Add(SOff(xs), bi)))),
			[]*Term{Select(Select(newComp, target), Add(Add(SOff(res), SLen(s)), bi))}),
		// in place: everything outside the written window of the target array is unchanged
		Implies(inPlace, Forall([]*Term{bi}, Implies(Or(Lt(bi, Add(SOff(s), SLen(s))), Ge(bi, Add(SOff(s), newLen))),
			Eq(Select(Select(newComp, target), bi), Select(Select(comp, target), bi))),
			[]*Term{Select(Select(newComp, target), bi)})),
		Implies(Not(inPlace), And(Ge(newCap, newLen), Le(newCap, BigIntLit("1152921504606846976")), Eq(RType(r), arrayTag(es)))),
	}
	e.assume(Implies(e.guard(), And(facts...)))
	st.Set(elemComp(es), newComp)
	st.next = Ite(inPlace, st.next, Add(st.next, IntLit(1)))
	return res
}

func (e *Exec) copySlice(dst, src *Term, es Sort) Val {
	st := e.curState
	comp := e.elems(st, es)
	n := Ite(Le(SLen(dst), SLen(src)), SLen(dst), SLen(src))
	newComp := Fresh("copy$"+elemComp(es), comp.Sort)
	ba := BoundVar("a", SInt)
	bi := BoundVar("i", SInt)
	tgt := SArr(dst)
	lo, hi := SOff(dst), Add(SOff(dst), n)
	facts := []*Term{
		Forall([]*Term{ba}, Implies(Neq(ba, tgt), Eq(Select(newComp, ba), Select(comp, ba))), []*Term{Select(newComp, ba)}),
		Forall([]*Term{bi}, Eq(Select(Select(newComp, tgt), bi),
			Ite(And(Le(lo, bi), Lt(bi, hi)), Select(Select(comp, SArr(src)), Add(SOff(src), Sub(bi, lo))), Select(Select(comp, tgt), bi))),
			[]*Term{Select(Select(newComp, tgt), bi)}),
	}
	e.assume(Implies(e.guard(), And(facts...)))
	st.Set(elemComp(es), Ite(Eq(n, IntLit(0)), comp, newComp))
	return n
}

// ---------- static calls ----------

func (e *Exec) callFunc(f *ssa.Function, bindings []Val, c *ssa.CallCommon, args []Val) Val {
	if m := lookupModel(f); m != nil {
		e.root().Assumed[m.Assumption] = true
		return m.Apply(e, f, c, args)
	}
	if ct := e.P.ContractOf(f); ct != nil && !ct.Flags["inline"] {
		return e.contractCall(f, ct, c, args)
	}
	if antlrConstructor(f) {
		// A-ANTLR-RT: NewX(...) of the ANTLR runtime / generated parser returns a fresh non-nil object and touches no
		// memory of the caller
		e.root().Assumed["A-ANTLR-RT"] = true
		res := f.Signature.Results()
		if res.Len() == 1 {
			if p, ok := res.At(0).Type().Underlying().(*types.Pointer); ok {
				return e.antlrObject(p.Elem(), 0)
			}
		}
		return e.freshResults(res, f.Name())
	}
	if antlrStatic(f) {
		e.root().Assumed["A-ANTLR-RT"] = true
		recv := e.toTerm(args[0], c.Args[0].Type())
		if recv.Sort == SIface {
			e.safety("nilderef", Neq(ITag(recv), IntLit(0)))
			recv = IVal(recv)
		} else if _, isPtr := c.Args[0].Type().Underlying().(*types.Pointer); isPtr {
			e.safety("nilderef", Neq(recv, IntLit(0)))
		}
		var as []*Term
		for i := 1; i < len(args); i++ {
			as = append(as, e.toTerm(args[i], c.Args[i].Type()))
		}
		return e.antlrResult(f.Name(), recv, as, f.Signature.Results())
	}
	if e.canInline(f) {
		return e.inlineCall(f, bindings, args)
	}
	if len(f.Blocks) > 0 && f.Pkg != nil && strings.HasPrefix(f.Pkg.Pkg.Path(), repoModule) {
		// repo function without contract: havoc its mod-set, unconstrained result
		ms := e.P.FuncModset(f)
		e.root().Havocked[FuncKey(f)+" (no contract)"] = true
		return e.havocByModset(ms, f.Signature.Results(), f.Name())
	}
	e.root().Havocked[fullName(f)+" (external, unmodelled)"] = true
	return e.havocCall(f.Signature.Results(), f.Name())
}

func (e *Exec) havocByModset(ms map[string]bool, res *types.Tuple, tag string) Val {
	if ms["*"] {
		return e.havocCall(res, tag)
	}
	var names []string
	for n := range ms {
		if n != "next" && !strings.HasPrefix(n, "G$") && !strings.HasPrefix(n, "alloc:") {
			names = append(names, n)
		}
	}
	sort.Strings(names)
	e.curState.Havoc(names, tag)
	if ms["next"] {
		nn := Fresh("next$"+tag, SInt)
		e.assume(Implies(e.guard(), Ge(nn, e.curState.next)))
		e.assumeClosedAlloc(ms, e.curState.next, nn)
		e.curState.next = nn
	}
	return e.freshResults(res, tag)
}

func (e *Exec) canInline(f *ssa.Function) bool {
	if len(f.Blocks) == 0 || e.depth > 6 {
		return false
	}
	if ct := e.P.ContractOf(f); ct != nil && ct.Flags["inline"] {
		return true
	}
	pkgPath := ""
	if f.Pkg != nil {
		pkgPath = f.Pkg.Pkg.Path()
	} else if f.Origin() != nil && f.Origin().Pkg != nil {
		pkgPath = f.Origin().Pkg.Pkg.Path()
	}
	allowed := pkgPath == "github.com/openfga/api/proto/openfga/v1" || strings.HasPrefix(pkgPath, repoModule)
	if !allowed {
		return false
	}
	// loop-free and small
	n := 0
	for _, b := range f.Blocks {
		n += len(b.Instrs)
		for _, s := range b.Succs {
			if s.Dominates(b) {
				return false
			}
		}
	}
	if n > 60 {
		return false
	}
	// no recursion through inlining
	for x := e; x != nil; x = x.inlineOf {
		if x.Fn == f {
			return false
		}
	}
	return true
}

func (e *Exec) inlineCall(f *ssa.Function, bindings []Val, args []Val) Val {
	sub := NewExec(e.P, f)
	sub.inlineOf = e
	sub.depth = e.depth + 1
	sub.entry = e.curState
	sub.curState = e.curState
	sub.curReach = e.curReach
	sub.specMode = e.specMode
	for i, prm := range f.Params {
		sub.vals[prm] = args[i]
		sub.params[prm.Name()] = args[i]
		sub.paramTy[prm.Name()] = prm.Type()
	}
	for i, fv := range f.FreeVars {
		if i < len(bindings) {
			sub.vals[fv] = bindings[i]
		} else {
			unsupported("closure %s without bindings", f)
		}
	}
	sub.reachBase = e.guard()
	sub.curReach = True
	if c := e.P.ContractOf(f); c != nil && c.Flags["byte_len"] && !byteLen {
		byteLen = true
		defer func() { byteLen = false }()
	}
	sub.execBody()
	sub.finish()
	e.root().Inlined[fullName(f)] = true
	e.curState = sub.exit
	if sub.exitCond != True {
		// paths on which the callee does not return (panic) end here
		e.curReach = And(e.curReach, sub.exitCond)
	}
	switch len(sub.results) {
	case 0:
		return nil
	case 1:
		return sub.results[0]
	}
	return Tuple(sub.results)
}

// contractCall: assert the callee's preconditions, havoc its mod-set, assume its postconditions.
func (e *Exec) contractCall(f *ssa.Function, ct *FuncContract, c *ssa.CallCommon, args []Val) Val {
	callState := e.curState.Clone()
	params := map[string]cval{}
	for i, prm := range f.Params {
		params[prm.Name()] = cval{t: e.toTerm(args[i], prm.Type()), ty: prm.Type()}
	}
	pre := &Env{e: e, st: callState, old: callState, names: params, pkg: f.Pkg.Pkg, oldNames: params}
	for i, rq := range ct.Requires {
		if rq.Group != "" {
			e.root().GroupsSeen[rq.Group] = true
		}
		if !clauseOn(rq) || !clauseEmit(rq) {
			continue
		}
		t := e.evalContractBool(rq.Expr, pre, "requires of "+ct.Name)
		e.oblige("pre", ct.Name+":"+labelOr(rq.Label, i), t, unionProps(ct.Props, []string{"C08"}), rq.Src)
	}
	// termination: recursive call must decrease the caller's measure
	if rc := e.root().C; rc != nil && rc.Decreases != nil && ct.Decreases != nil && e.sameSCC(f) {
		callee := e.evalContract(ct.Decreases.Expr, pre, "decreases").t
		caller := e.evalContract(rc.Decreases.Expr, e.root().entryEnv(), "decreases").t
		e.oblige("decreases", ct.Name, And(Le(IntLit(0), callee), Lt(callee, caller)), []string{"C08"}, ct.Decreases.Src)
	}
	var ret Val
	if ct.Flags["pure"] {
		// "pure" = writes nothing that existed; it may still return newly allocated objects (a fresh slice), so the
		// allocation counter advances when a result can hold a reference (otherwise `fresh(result)` in its ensures
		// contradicts "every reference is below the counter")
		if resultsHoldRefs(f.Signature.Results()) {
			nn := Fresh("next$"+f.Name(), SInt)
			e.assume(Implies(e.guard(), Ge(nn, e.curState.next)))
			e.curState.next = nn
		}
		ret = e.freshResults(f.Signature.Results(), f.Name())
	} else {
		ret = e.havocByModset(e.P.FuncModset(f), f.Signature.Results(), f.Name())
	}
	post := &Env{e: e, st: e.curState, old: callState, names: map[string]cval{}, pkg: f.Pkg.Pkg, oldNames: params}
	for k, v := range params {
		post.names[k] = v
	}
	bindResults(post.names, f, ret)
	for _, en := range ct.Ensures {
		if !clauseOn(en) {
			continue
		}
		t := e.evalContractBool(en.Expr, post, "ensures of "+ct.Name)
		e.assume(Implies(e.guard(), t))
	}
	for i, en := range ct.Assumes {
		if !clauseOn(en) {
			continue
		}
		t := e.evalContractBool(en.Expr, post, "assumes of "+ct.Name)
		e.assume(Implies(e.guard(), t))
		e.root().Assumed["assumed postcondition "+FuncKey(f)+"#"+labelOr(en.Label, i)+": "+en.Src] = true
	}
	if ct.Flags["trusted"] {
		e.root().Assumed["trusted contract of "+FuncKey(f)] = true
	}
	e.probe("after-call:" + ct.Name)
	return ret
}

func resultsHoldRefs(res *types.Tuple) bool {
	for i := 0; i < res.Len(); i++ {
		switch res.At(i).Type().Underlying().(type) {
		case *types.Basic:
		default:
			return true
		}
	}
	return false
}

func unionProps(a, b []string) []string {
	m := map[string]bool{}
	for _, x := range a {
		m[x] = true
	}
	for _, x := range b {
		m[x] = true
	}
	var out []string
	for k := range m {
		out = append(out, k)
	}
	sort.Strings(out)
	return out
}

func bindResults(names map[string]cval, f *ssa.Function, ret Val) {
	res := f.Signature.Results()
	get := func(i int) Val {
		if res.Len() == 1 {
			return ret
		}
		return ret.(Tuple)[i]
	}
	for i := 0; i < res.Len(); i++ {
		v, _ := get(i).(*Term)
		if v == nil {
			continue
		}
		cv := cval{t: v, ty: res.At(i).Type()}
		names[fmt.Sprintf("result%d", i)] = cv
		if i == 0 {
			names["result"] = cv
		}
		if n := res.At(i).Name(); n != "" && n != "_" {
			names[n] = cv
		}
		if types.Identical(res.At(i).Type(), types.Universe.Lookup("error").Type()) {
			if _, dup := names["err"]; !dup {
				names["err"] = cv
			}
		}
	}
}

func (e *Exec) sameSCC(f *ssa.Function) bool {
	// conservative: any two functions under contract with decreases clauses in the same package that can reach each
	// other; approximated by "both have a decreases clause" (the obligation is only stronger than needed).
	return true
}

// ---------- interface method calls ----------

func (e *Exec) invoke(c *ssa.CallCommon, recv *Term, args []Val) Val {
	if m := lookupInvokeModel(c); m != nil {
		e.root().Assumed[m.Assumption] = true
		return m.ApplyInvoke(e, c, recv, args)
	}
	e.root().Havocked["interface call "+c.Method.FullName()+" (unmodelled)"] = true
	e.safety("nilderef", Neq(ITag(recv), IntLit(0)))
	return e.havocCall(c.Signature().Results(), c.Method.Name())
}

// assumeClosedAlloc (contract flag closed_alloc of the function being verified): the objects allocated between the
// allocation counters lo and hi by a callee or by earlier iterations of a loop are of the struct types that code
// (transitively) allocates - none of the repository's other struct types appears among the new objects. Sound for
// repository code: the pseudo components alloc:<type> are collected from the bodies together with the mod-set; library
// models never allocate a repository struct.
func (e *Exec) assumeClosedAlloc(ms map[string]bool, lo, hi *Term) {
	rc := e.root().C
	if rc == nil || !rc.Flags["closed_alloc"] || ms["*"] || ms["alloc:*"] {
		return
	}
	var conj []*Term
	r := BoundVar("r", SInt)
	for _, t := range typeTagList {
		if t == nil {
			continue
		}
		nt, ok := t.(*types.Named)
		if !ok || nt.Obj().Pkg() == nil || !strings.HasPrefix(nt.Obj().Pkg().Path(), repoModule) {
			continue
		}
		if _, ok := t.Underlying().(*types.Struct); !ok || ms["alloc:"+typeKey(t)] {
			continue
		}
		conj = append(conj, Neq(RType(r), tagOf(t)))
	}
	if len(conj) > 0 {
		e.assume(Implies(e.guard(), Forall([]*Term{r}, Implies(And(Le(lo, r), Lt(r, hi)), And(conj...)), []*Term{RType(r)})))
	}
}
