package main

// Contract files: `//@` comment blocks in <pkg>/contracts_verif.go (build tag verif).
// Grammar (one clause per logical line; a line that does not start with a keyword continues the previous one):
//
//   func <name>                      name as printed by (*ssa.Function).RelString(pkg), e.g. sortByModule,
//                                    (*DirectAssignmentValidator).isFirstPosition, GetTypeLineNumber$1 (closure)
//     props C02 C13                  properties the clauses of this function serve (default for every clause)
//     requires [label:] <expr>
//     ensures  [label:] [{C02,C14}] <expr>
//     decreases <expr>
//     loop <ord> invariant [label:] <expr>
//     pure | trusted | maypanic | nosafety | inline
//     modifies <comp-glob> ...       restricts automatic mod-set (checked)
//   spec <name>(<p> <type>, ...) <type>  = <expr>
//   axiom <name>: <expr>             assumed at entry of every function of the package (listed as assumption)
//   lemma <name> [{props}]: <expr>   proved on its own (all free names quantified with `forall`)

import (
	"strconv"
	"fmt"
	"os"
	"strings"
	"unicode"
)

type Clause struct {
	Label string
	Group string // proof group ("" = main): a pseudo property G<n> in the braces, see activeGroup
	Props []string
	Expr  *CExpr
	Src   string
	Line  int
}

type LoopSpec struct {
	Ord        string
	Invariants []*Clause
	Decreases  *Clause // loop variant: non-negative at the head whenever the body runs, strictly smaller at every back edge
}

type FuncContract struct {
	Name      string
	Pkg       string
	Props     []string
	Requires  []*Clause
	Ensures   []*Clause
	Decreases *Clause
	Covers    []*Clause
	Assumes   []*Clause // postconditions assumed at call sites but not checked in the body (listed as assumptions)
	Loops     map[string]*LoopSpec
	Flags     map[string]bool
	Modifies  []string
	Line      int
	File      string
}

type SpecParam struct {
	Name string
	Type string
}

type SpecFun struct {
	Name   string
	Pkg    string
	Params []SpecParam
	Ret    string
	Body   *CExpr
	Src    string
	Line   int
	Opaque bool // uninterpreted (no body)
}

type Axiom struct {
	Name  string
	Pkg   string
	Expr  *CExpr
	Src   string
	Props []string
	Line  int
}

type ContractFile struct {
	Pkg    string
	Path   string
	Funcs  []*FuncContract
	Specs  []*SpecFun
	Axioms []*Axiom
	Lemmas []*Axiom
}

var clauseKeywords = map[string]bool{"func": true, "props": true, "requires": true, "ensures": true, "decreases": true,
	"loop": true, "pure": true, "trusted": true, "maypanic": true, "nosafety": true, "inline": true, "modifies": true,
	"cover": true, "assumes": true, "spec": true, "axiom": true, "lemma": true, "opaque": true, "noframe": true, "readonly": true, "opaque_strings": true, "string_len_bound": true, "byte_len": true, "readonly_model": true, "readonly_receiver": true, "closed_alloc": true, "per_return_posts": true}

func ParseContractFile(path, pkg string) (*ContractFile, error) {
	data, err := os.ReadFile(path)
	if err != nil {
		return nil, err
	}
	cf := &ContractFile{Pkg: pkg, Path: path}
	type logical struct {
		text string
		line int
	}
	var lines []logical
	for i, raw := range strings.Split(string(data), "\n") {
		t := strings.TrimSpace(raw)
		if !strings.HasPrefix(t, "//@") {
			continue
		}
		t = strings.TrimSpace(t[3:])
		if t == "" || strings.HasPrefix(t, "--") {
			continue
		}
		first := t
		if j := strings.IndexFunc(t, func(r rune) bool { return unicode.IsSpace(r) || r == '(' }); j >= 0 {
			first = t[:j]
		}
		if clauseKeywords[first] || len(lines) == 0 {
			lines = append(lines, logical{t, i + 1})
		} else {
			lines[len(lines)-1].text += " " + t
		}
	}
	var cur *FuncContract
	for _, l := range lines {
		kw, rest := splitFirst(l.text)
		fail := func(e error) error { return fmt.Errorf("%s:%d: %v (in %q)", path, l.line, e, l.text) }
		switch kw {
		case "func":
			cur = &FuncContract{Name: strings.TrimSpace(rest), Pkg: pkg, Loops: map[string]*LoopSpec{}, Flags: map[string]bool{}, Line: l.line, File: path}
			cf.Funcs = append(cf.Funcs, cur)
		case "props":
			if cur == nil {
				return nil, fail(fmt.Errorf("props outside func"))
			}
			cur.Props = strings.Fields(rest)
		case "requires", "ensures", "decreases", "cover", "assumes":
			if cur == nil {
				return nil, fail(fmt.Errorf("%s outside func", kw))
			}
			cl, err := parseClause(rest, l.line)
			if err != nil {
				return nil, fail(err)
			}
			switch kw {
			case "requires":
				cur.Requires = append(cur.Requires, cl)
			case "ensures":
				cur.Ensures = append(cur.Ensures, cl)
			case "cover":
				cur.Covers = append(cur.Covers, cl)
			case "assumes":
				cur.Assumes = append(cur.Assumes, cl)
			default:
				cur.Decreases = cl
			}
		case "loop":
			if cur == nil {
				return nil, fail(fmt.Errorf("loop outside func"))
			}
			ord, r2 := splitFirst(rest)
			kw2, r3 := splitFirst(r2)
			if kw2 != "invariant" && kw2 != "decreases" {
				return nil, fail(fmt.Errorf("expected 'invariant' or 'decreases'"))
			}
			cl, err := parseClause(r3, l.line)
			if err != nil {
				return nil, fail(err)
			}
			ls := cur.Loops[ord]
			if ls == nil {
				ls = &LoopSpec{Ord: ord}
				cur.Loops[ord] = ls
			}
			if kw2 == "decreases" {
				ls.Decreases = cl
			} else {
				ls.Invariants = append(ls.Invariants, cl)
			}
		case "pure", "trusted", "maypanic", "nosafety", "inline", "noframe", "readonly", "opaque_strings", "string_len_bound", "byte_len", "readonly_model", "readonly_receiver", "closed_alloc", "per_return_posts":
			if cur == nil {
				return nil, fail(fmt.Errorf("%s outside func", kw))
			}
			cur.Flags[kw] = true
		case "modifies":
			cur.Modifies = append(cur.Modifies, strings.Fields(rest)...)
		case "spec", "opaque":
			sf, err := parseSpec(rest, kw == "opaque")
			if err != nil {
				return nil, fail(err)
			}
			sf.Pkg = pkg
			sf.Line = l.line
			cf.Specs = append(cf.Specs, sf)
			cur = nil
		case "axiom", "lemma":
			i := strings.Index(rest, ":")
			if i < 0 {
				return nil, fail(fmt.Errorf("expected name:"))
			}
			head := strings.TrimSpace(rest[:i])
			var props []string
			if j := strings.Index(head, "{"); j >= 0 {
				props = strings.FieldsFunc(strings.Trim(head[j:], "{} "), func(r rune) bool { return r == ',' || r == ' ' })
				head = strings.TrimSpace(head[:j])
			}
			e, err := ParseCExpr(rest[i+1:])
			if err != nil {
				return nil, fail(err)
			}
			ax := &Axiom{Name: head, Pkg: pkg, Expr: e, Src: strings.TrimSpace(rest[i+1:]), Props: props, Line: l.line}
			if kw == "axiom" {
				cf.Axioms = append(cf.Axioms, ax)
			} else {
				cf.Lemmas = append(cf.Lemmas, ax)
			}
			cur = nil
		default:
			return nil, fail(fmt.Errorf("unknown clause keyword %q", kw))
		}
	}
	return cf, nil
}

func splitFirst(s string) (string, string) {
	s = strings.TrimSpace(s)
	i := strings.IndexFunc(s, unicode.IsSpace)
	if i < 0 {
		return s, ""
	}
	return s[:i], strings.TrimSpace(s[i:])
}

// parseClause: [label:] [{P1,P2}] expr
func parseClause(s string, line int) (*Clause, error) {
	cl := &Clause{Line: line}
	s = strings.TrimSpace(s)
	// label: identifier followed by ':' (but not '::')
	for i, r := range s {
		if r == ':' {
			if i+1 < len(s) && s[i+1] == ':' {
				break
			}
			if i > 0 {
				cl.Label = s[:i]
				s = strings.TrimSpace(s[i+1:])
			}
			break
		}
		if !(unicode.IsLetter(r) || unicode.IsDigit(r) || r == '_') {
			break
		}
	}
	if strings.HasPrefix(s, "{") {
		j := strings.Index(s, "}")
		if j > 0 {
			for _, it := range strings.FieldsFunc(s[1:j], func(r rune) bool { return r == ',' || r == ' ' }) {
				if len(it) >= 2 && it[0] == 'G' && it[1] >= '0' && it[1] <= '9' {
					cl.Group = it
				} else {
					cl.Props = append(cl.Props, it)
				}
			}
			s = strings.TrimSpace(s[j+1:])
		}
	}
	e, err := ParseCExpr(s)
	if err != nil {
		return nil, err
	}
	cl.Expr = e
	cl.Src = s
	return cl, nil
}

func parseSpec(s string, opaque bool) (*SpecFun, error) {
	// name(p T, q T) R = body
	i := strings.Index(s, "(")
	if i < 0 {
		return nil, fmt.Errorf("spec: expected (")
	}
	sf := &SpecFun{Name: strings.TrimSpace(s[:i]), Opaque: opaque}
	depth := 0
	j := i
	for ; j < len(s); j++ {
		if s[j] == '(' {
			depth++
		} else if s[j] == ')' {
			depth--
			if depth == 0 {
				break
			}
		}
	}
	if j >= len(s) {
		return nil, fmt.Errorf("spec: unbalanced parens")
	}
	ps := strings.TrimSpace(s[i+1 : j])
	if ps != "" {
		for _, p := range splitTop(ps, ',') {
			n, t := splitFirst(p)
			sf.Params = append(sf.Params, SpecParam{n, t})
		}
	}
	rest := strings.TrimSpace(s[j+1:])
	if opaque {
		sf.Ret = rest
		return sf, nil
	}
	k := strings.Index(rest, "=")
	if k < 0 {
		return nil, fmt.Errorf("spec: expected '='")
	}
	sf.Ret = strings.TrimSpace(rest[:k])
	body := rest[k+1:]
	e, err := ParseCExpr(body)
	if err != nil {
		return nil, err
	}
	sf.Body = e
	sf.Src = strings.TrimSpace(body)
	return sf, nil
}

func splitTop(s string, sep byte) []string {
	var out []string
	depth := 0
	last := 0
	for i := 0; i < len(s); i++ {
		switch s[i] {
		case '(', '[', '{':
			depth++
		case ')', ']', '}':
			depth--
		default:
			if s[i] == sep && depth == 0 {
				out = append(out, strings.TrimSpace(s[last:i]))
				last = i + 1
			}
		}
	}
	out = append(out, strings.TrimSpace(s[last:]))
	return out
}

// ---------------- expressions ----------------

type CExpr struct {
	Kind string // ident int str un bin call sel index slice method assert quant let
	Name string // ident name, operator, field/method name, quantifier kind
	Str  string // string literal value / type text for assert & quant
	Args []*CExpr
	Vars []SpecParam // quant / let variables
	Pos  int
}

func (e *CExpr) String() string {
	switch e.Kind {
	case "ident", "int":
		return e.Name
	case "str":
		return fmt.Sprintf("%q", e.Str)
	case "un":
		return e.Name + e.Args[0].String()
	case "bin":
		return "(" + e.Args[0].String() + " " + e.Name + " " + e.Args[1].String() + ")"
	case "call":
		var as []string
		for _, a := range e.Args {
			as = append(as, a.String())
		}
		return e.Name + "(" + strings.Join(as, ", ") + ")"
	case "sel":
		return e.Args[0].String() + "." + e.Name
	case "method":
		var as []string
		for _, a := range e.Args[1:] {
			as = append(as, a.String())
		}
		return e.Args[0].String() + "." + e.Name + "(" + strings.Join(as, ", ") + ")"
	case "index":
		return e.Args[0].String() + "[" + e.Args[1].String() + "]"
	case "slice":
		return e.Args[0].String() + "[..:..]"
	case "assert":
		return e.Args[0].String() + ".(" + e.Str + ")"
	case "quant":
		return e.Name + " ... :: " + e.Args[0].String()
	case "let":
		return "let ... :: " + e.Args[len(e.Args)-1].String()
	}
	return "?"
}

type ctok struct {
	kind string // id int str op eof
	text string
	pos  int
}

type cparser struct {
	toks []ctok
	i    int
	src  string
}

func clex(s string) ([]ctok, error) {
	var toks []ctok
	i := 0
	for i < len(s) {
		c := s[i]
		switch {
		case c == ' ' || c == '\t' || c == '\n' || c == '\r':
			i++
		case c == '"':
			j := i + 1
			var sb strings.Builder
			for j < len(s) && s[j] != '"' {
				if s[j] == '\\' && j+1 < len(s) {
					j++
					switch s[j] {
					case 'n':
						sb.WriteByte('\n')
					case 't':
						sb.WriteByte('\t')
					case 'r':
						sb.WriteByte('\r')
					case '\\':
						sb.WriteByte('\\')
					case '"':
						sb.WriteByte('"')
					case 'u':
						if j+4 < len(s) {
							if n, err := strconv.ParseUint(s[j+1:j+5], 16, 32); err == nil {
								sb.WriteRune(rune(n))
								j += 4
								break
							}
						}
						sb.WriteString("\\u")
					default:
						sb.WriteByte('\\')
						sb.WriteByte(s[j])
					}
				} else {
					sb.WriteByte(s[j])
				}
				j++
			}
			if j >= len(s) {
				return nil, fmt.Errorf("unterminated string")
			}
			toks = append(toks, ctok{"str", sb.String(), i})
			i = j + 1
		case c == '`':
			j := strings.IndexByte(s[i+1:], '`')
			if j < 0 {
				return nil, fmt.Errorf("unterminated raw string")
			}
			toks = append(toks, ctok{"str", s[i+1 : i+1+j], i})
			i = i + j + 2
		case c >= '0' && c <= '9':
			j := i
			for j < len(s) && (s[j] >= '0' && s[j] <= '9') {
				j++
			}
			toks = append(toks, ctok{"int", s[i:j], i})
			i = j
		case c == '_' || c == '$' || unicode.IsLetter(rune(c)):
			j := i + 1
			for j < len(s) && (s[j] == '_' || s[j] == '$' || unicode.IsLetter(rune(s[j])) || unicode.IsDigit(rune(s[j]))) {
				j++
			}
			toks = append(toks, ctok{"id", s[i:j], i})
			i = j
		default:
			ops := []string{"<==>", "==>", "::", "==", "!=", "<=", ">=", "&&", "||", "(", ")", "[", "]", "{", "}", ".", ",", ":", "+", "-", "*", "/", "%", "<", ">", "!", "="}
			matched := false
			for _, op := range ops {
				if strings.HasPrefix(s[i:], op) {
					toks = append(toks, ctok{"op", op, i})
					i += len(op)
					matched = true
					break
				}
			}
			if !matched {
				return nil, fmt.Errorf("unexpected character %q at %d", c, i)
			}
		}
	}
	toks = append(toks, ctok{"eof", "", len(s)})
	return toks, nil
}

func ParseCExpr(s string) (*CExpr, error) {
	toks, err := clex(s)
	if err != nil {
		return nil, err
	}
	p := &cparser{toks: toks, src: s}
	var e *CExpr
	func() {
		defer func() {
			if r := recover(); r != nil {
				if pe, ok := r.(parseErr); ok {
					err = fmt.Errorf("%s", string(pe))
					return
				}
				panic(r)
			}
		}()
		e = p.expr()
		if p.peek().kind != "eof" {
			p.fail("unexpected token %q", p.peek().text)
		}
	}()
	return e, err
}

type parseErr string

func (p *cparser) fail(f string, a ...any) {
	panic(parseErr(fmt.Sprintf(f, a...) + fmt.Sprintf(" at offset %d of %q", p.peek().pos, p.src)))
}
func (p *cparser) peek() ctok { return p.toks[p.i] }
func (p *cparser) next() ctok {
	t := p.toks[p.i]
	if p.i < len(p.toks)-1 {
		p.i++
	}
	return t
}
func (p *cparser) isOp(s string) bool { t := p.peek(); return t.kind == "op" && t.text == s }
func (p *cparser) accept(s string) bool {
	if p.isOp(s) {
		p.next()
		return true
	}
	return false
}
func (p *cparser) expect(s string) {
	if !p.accept(s) {
		p.fail("expected %q, got %q", s, p.peek().text)
	}
}

// typeText reads tokens forming a type up to one of the stop operators at depth 0.
func (p *cparser) typeText(stops ...string) string {
	var sb strings.Builder
	depth := 0
	for {
		t := p.peek()
		if t.kind == "eof" {
			break
		}
		if t.kind == "op" && depth == 0 {
			stop := false
			for _, s := range stops {
				if t.text == s {
					stop = true
				}
			}
			if stop {
				break
			}
		}
		if t.kind == "op" && (t.text == "(" || t.text == "[" || t.text == "{") {
			depth++
		}
		if t.kind == "op" && (t.text == ")" || t.text == "]" || t.text == "}") {
			depth--
		}
		sb.WriteString(t.text)
		if t.kind == "id" && p.toks[p.i+1].kind == "id" {
			sb.WriteString(" ")
		}
		p.next()
	}
	return sb.String()
}

func (p *cparser) expr() *CExpr {
	t := p.peek()
	if t.kind == "id" && (t.text == "forall" || t.text == "exists") {
		p.next()
		q := &CExpr{Kind: "quant", Name: t.text, Pos: t.pos}
		for {
			n := p.next()
			if n.kind != "id" {
				p.fail("expected bound variable name")
			}
			ty := p.typeText(",", "::")
			q.Vars = append(q.Vars, SpecParam{n.text, ty})
			if p.accept(",") {
				continue
			}
			p.expect("::")
			break
		}
		q.Args = []*CExpr{p.expr()}
		return q
	}
	if t.kind == "id" && t.text == "let" {
		p.next()
		l := &CExpr{Kind: "let", Pos: t.pos}
		for {
			n := p.next()
			p.expect("=")
			l.Vars = append(l.Vars, SpecParam{n.text, ""})
			l.Args = append(l.Args, p.iff())
			if p.accept(",") {
				continue
			}
			p.expect("::")
			break
		}
		l.Args = append(l.Args, p.expr())
		return l
	}
	return p.iff()
}

func (p *cparser) iff() *CExpr {
	l := p.implies()
	for p.isOp("<==>") {
		t := p.next()
		r := p.implies()
		l = &CExpr{Kind: "bin", Name: "<==>", Args: []*CExpr{l, r}, Pos: t.pos}
	}
	return l
}

func (p *cparser) implies() *CExpr {
	l := p.or()
	if p.isOp("==>") {
		t := p.next()
		var r *CExpr
		// allow a quantifier on the right-hand side
		if n := p.peek(); n.kind == "id" && (n.text == "forall" || n.text == "exists" || n.text == "let") {
			r = p.expr()
		} else {
			r = p.implies()
		}
		return &CExpr{Kind: "bin", Name: "==>", Args: []*CExpr{l, r}, Pos: t.pos}
	}
	return l
}

func (p *cparser) or() *CExpr {
	l := p.and()
	for p.isOp("||") {
		t := p.next()
		r := p.and()
		l = &CExpr{Kind: "bin", Name: "||", Args: []*CExpr{l, r}, Pos: t.pos}
	}
	return l
}

func (p *cparser) and() *CExpr {
	l := p.cmp()
	for p.isOp("&&") {
		t := p.next()
		var r *CExpr
		if n := p.peek(); n.kind == "id" && (n.text == "forall" || n.text == "exists" || n.text == "let") {
			r = p.expr()
		} else {
			r = p.cmp()
		}
		l = &CExpr{Kind: "bin", Name: "&&", Args: []*CExpr{l, r}, Pos: t.pos}
	}
	return l
}

func (p *cparser) cmp() *CExpr {
	l := p.add()
	for {
		t := p.peek()
		if t.kind == "op" && (t.text == "==" || t.text == "!=" || t.text == "<" || t.text == "<=" || t.text == ">" || t.text == ">=") {
			p.next()
			r := p.add()
			l = &CExpr{Kind: "bin", Name: t.text, Args: []*CExpr{l, r}, Pos: t.pos}
			continue
		}
		return l
	}
}

func (p *cparser) add() *CExpr {
	l := p.mul()
	for p.isOp("+") || p.isOp("-") {
		t := p.next()
		r := p.mul()
		l = &CExpr{Kind: "bin", Name: t.text, Args: []*CExpr{l, r}, Pos: t.pos}
	}
	return l
}

func (p *cparser) mul() *CExpr {
	l := p.unary()
	for p.isOp("*") || p.isOp("/") || p.isOp("%") {
		t := p.next()
		r := p.unary()
		l = &CExpr{Kind: "bin", Name: t.text, Args: []*CExpr{l, r}, Pos: t.pos}
	}
	return l
}

func (p *cparser) unary() *CExpr {
	if p.isOp("!") || p.isOp("-") {
		t := p.next()
		return &CExpr{Kind: "un", Name: t.text, Args: []*CExpr{p.unary()}, Pos: t.pos}
	}
	return p.postfix()
}

func (p *cparser) postfix() *CExpr {
	e := p.primary()
	for {
		switch {
		case p.isOp("."):
			t := p.next()
			if p.accept("(") {
				ty := p.typeText(")")
				p.expect(")")
				e = &CExpr{Kind: "assert", Str: ty, Args: []*CExpr{e}, Pos: t.pos}
				continue
			}
			n := p.next()
			if n.kind != "id" {
				p.fail("expected field name")
			}
			if p.accept("(") {
				args := []*CExpr{e}
				for !p.isOp(")") {
					args = append(args, p.expr())
					if !p.accept(",") {
						break
					}
				}
				p.expect(")")
				e = &CExpr{Kind: "method", Name: n.text, Args: args, Pos: t.pos}
			} else {
				e = &CExpr{Kind: "sel", Name: n.text, Args: []*CExpr{e}, Pos: t.pos}
			}
		case p.isOp("["):
			t := p.next()
			if p.accept(":") {
				hi := p.expr()
				p.expect("]")
				e = &CExpr{Kind: "slice", Args: []*CExpr{e, nil, hi}, Pos: t.pos}
				continue
			}
			idx := p.expr()
			if p.accept(":") {
				var hi *CExpr
				if !p.isOp("]") {
					hi = p.expr()
				}
				p.expect("]")
				e = &CExpr{Kind: "slice", Args: []*CExpr{e, idx, hi}, Pos: t.pos}
				continue
			}
			p.expect("]")
			e = &CExpr{Kind: "index", Args: []*CExpr{e, idx}, Pos: t.pos}
		default:
			return e
		}
	}
}

func (p *cparser) primary() *CExpr {
	t := p.next()
	switch t.kind {
	case "int":
		return &CExpr{Kind: "int", Name: t.text, Pos: t.pos}
	case "str":
		return &CExpr{Kind: "str", Str: t.text, Pos: t.pos}
	case "id":
		if p.accept("(") {
			// type-argument style calls: is(x, T), zero(T): args parsed as expressions; type args given as strings or idents
			var args []*CExpr
			for !p.isOp(")") {
				args = append(args, p.expr())
				if !p.accept(",") {
					break
				}
			}
			p.expect(")")
			return &CExpr{Kind: "call", Name: t.text, Args: args, Pos: t.pos}
		}
		return &CExpr{Kind: "ident", Name: t.text, Pos: t.pos}
	case "op":
		if t.text == "(" {
			e := p.expr()
			p.expect(")")
			return e
		}
		if t.text == "*" {
			// pointer type used as a type argument, e.g. is(x, *pkg.T): read the type text
			ty := "*" + p.typeText(",", ")")
			return &CExpr{Kind: "str", Str: ty, Name: "type", Pos: t.pos}
		}
	}
	p.fail("unexpected token %q", t.text)
	return nil
}

// Proof groups. A clause marked {G2} belongs to proof group G2. The MAIN pass over a function sees the contracts as if the
// grouped clauses did not exist (neither assumed nor proved, at the function's own clauses and at call sites alike). The
// GROUP pass sees every clause, and emits obligations only for the clauses of its group: what the main pass proved
// (ungrouped invariants, postconditions, safety) is used there as it stands - an invariant proved inductive on its own
// may be assumed when a further invariant is proved inductive relative to it. Purpose: frame-like invariants that are
// cheap to prove but make the context of the expensive content clauses too large for the solvers.
var activeGroup string

func clauseOn(c *Clause) bool  { return c.Group == "" || activeGroup != "" }
func clauseEmit(c *Clause) bool { return c.Group == activeGroup }
