package main

// Symbolic heap state: named components, lazily created; merge; havoc.

import (
	"fmt"
	"go/types"
	"sort"
	"strings"
)

var epochCounter int

type State struct {
	comps   map[string]*Term
	sorts   map[string]Sort
	epoch   int
	parents []*State
	pconds  []*Term
	next    *Term
	paramMode bool
	paramReads map[string]bool // shared by all clones of a parameter state
}

func NewState(label string) *State {
	epochCounter++
	st := &State{comps: map[string]*Term{}, sorts: map[string]Sort{}, epoch: epochCounter}
	st.next = Const(fmt.Sprintf("next%d", st.epoch), SInt)
	return st
}

func (s *State) Clone() *State {
	c := &State{comps: make(map[string]*Term, len(s.comps)), sorts: s.sorts, epoch: s.epoch, parents: s.parents, pconds: s.pconds, next: s.next, paramMode: s.paramMode, paramReads: s.paramReads}
	for k, v := range s.comps {
		c.comps[k] = v
	}
	return c
}

// allSorts maps component names to sorts, separately for the two string modes (the sort of a string-valued component
// differs between them).
var allSortsNative = map[string]Sort{}
var allSortsOpaque = map[string]Sort{}

type sortRegistry struct{}

var allSorts sortRegistry

func (sortRegistry) m() map[string]Sort {
	if opaqueStrings {
		return allSortsOpaque
	}
	return allSortsNative
}
func (r sortRegistry) get(n string) (Sort, bool) { s, ok := r.m()[n]; return s, ok }
func (r sortRegistry) set(n string, s Sort)      { r.m()[n] = s }

func (s *State) Get(name string, sort Sort) *Term {
	if t, ok := s.comps[name]; ok {
		return t
	}
	if reg, ok := allSorts.get(name); ok {
		sort = reg // the registered (type-derived) sort wins over a sort inferred from a value
	} else {
		allSorts.set(name, sort)
	}
	var t *Term
	if len(s.parents) > 0 {
		t = s.parents[len(s.parents)-1].Get(name, sort)
		for i := len(s.parents) - 2; i >= 0; i-- {
			t = Ite(s.pconds[i], s.parents[i].Get(name, sort), t)
		}
	} else if s.paramMode {
		// specification-function body: heap components are parameters of the definition
		t = TS.intern(&Term{Name: smtName("hp$" + name), Sort: sort, flags: flagHasBound})
		t.flags |= flagHasBound
		if s.paramReads != nil {
			s.paramReads[name] = true
		}
	} else {
		t = Const(fmt.Sprintf("H%d$%s", s.epoch, name), sort)
	}
	s.comps[name] = t
	return t
}

func (s *State) Set(name string, t *Term) {
	if _, ok := allSorts.get(name); !ok {
		allSorts.set(name, t.Sort)
	}
	s.comps[name] = t
}

// MergeStates builds the join of states under mutually exclusive conditions.
func MergeStates(sts []*State, conds []*Term) *State {
	if len(sts) == 1 {
		return sts[0].Clone()
	}
	epochCounter++
	m := &State{comps: map[string]*Term{}, sorts: map[string]Sort{}, epoch: epochCounter, parents: sts, pconds: conds}
	// eager merge of touched components keeps terms small when all parents agree
	keys := map[string]bool{}
	for _, st := range sts {
		for k := range st.comps {
			keys[k] = true
		}
	}
	for k := range keys {
		m.Get(k, allSorts.m()[k])
	}
	nx := sts[len(sts)-1].next
	for i := len(sts) - 2; i >= 0; i-- {
		nx = Ite(conds[i], sts[i].next, nx)
	}
	m.next = nx
	return m
}

// HavocAll forgets every component (unknown callee).
func (s *State) HavocAll() *State {
	epochCounter++
	n := &State{comps: map[string]*Term{}, sorts: map[string]Sort{}, epoch: epochCounter}
	n.next = Const(fmt.Sprintf("next%d", n.epoch), SInt)
	return n
}

// Havoc forgets the named components.
func (s *State) Havoc(names []string, tag string) {
	for _, n := range names {
		if n == "next" || strings.HasPrefix(n, "alloc:") {
			continue
		}
		srt, ok := allSorts.get(n)
		if !ok {
			panic("Havoc of unregistered component " + n)
		}
		s.comps[n] = Fresh("hv$"+tag+"$"+n, srt)
	}
}


func (s *State) CompNames() []string {
	var ks []string
	for k := range s.comps {
		ks = append(ks, k)
	}
	sort.Strings(ks)
	return ks
}

// ---------- component naming ----------

func fieldComp(structT types.Type, idx int) string {
	st := structT.Underlying().(*types.Struct)
	n := "F$" + shortKey(structT) + "." + st.Field(idx).Name()
	if _, ok := allSorts.get(n); !ok && !isStruct(st.Field(idx).Type()) {
		allSorts.set(n, ArraySort(SInt, sortOf(st.Field(idx).Type())))
	}
	return n
}

func shortKey(t types.Type) string {
	t = types.Unalias(t)
	s := types.TypeString(t, func(p *types.Package) string { return p.Name() })
	return strings.NewReplacer(" ", "", "|", "!").Replace(s)
}

func sortTag(s Sort) string {
	return strings.NewReplacer("(", "<", ")", ">", " ", "_").Replace(string(s))
}

func reg(n string, s Sort) string {
	if _, ok := allSorts.get(n); !ok {
		allSorts.set(n, s)
	}
	return n
}
func elemComp(elem Sort) string { return reg("E$"+sortTag(elem), ArraySort(SInt, ArraySort(SInt, elem))) }
func cellComp(s Sort) string    { return reg("C$"+sortTag(s), ArraySort(SInt, s)) }
func mapDomComp(k, v Sort) string {
	return reg("MD$"+sortTag(k)+"$"+sortTag(v), ArraySort(SInt, ArraySort(k, SBool)))
}
func mapValComp(k, v Sort) string {
	return reg("MV$"+sortTag(k)+"$"+sortTag(v), ArraySort(SInt, ArraySort(k, v)))
}
func globalComp(pkg, name string) string {
	return "G$" + pkg + "." + name
}
