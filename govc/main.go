package main

import (
	"encoding/json"
	"flag"
	"fmt"
	"os"
	"path/filepath"
	"regexp"
	"sort"
	"strings"
	"sync"
	"time"

	"golang.org/x/tools/go/ssa"
)

type oblResult struct {
	O   *Obligation
	R   *SolverResult
	Key string
}

type KnownFinding struct {
	Property   string `json:"property"`
	Obligation string `json:"obligation"`
	What       string `json:"what"`
	Status     string `json:"status"` // "known" or "fixed"
	Commit     string `json:"commit,omitempty"`
	Bounded    string `json:"bounded,omitempty"`
}

func loadKnown(path string) []KnownFinding {
	var out []KnownFinding
	data, err := os.ReadFile(path)
	if err != nil {
		return nil
	}
	for _, l := range strings.Split(string(data), "\n") {
		l = strings.TrimSpace(l)
		if l == "" || strings.HasPrefix(l, "#") || strings.HasPrefix(l, "fixed:") {
			continue
		}
		var k KnownFinding
		if json.Unmarshal([]byte(l), &k) == nil {
			out = append(out, k)
		}
	}
	return out
}

// loadUnclaimed reads obligation names (one per line, '#' comments, trailing '*' = prefix) that are generated but not
// claimed because no solver of the portfolio carries them reliably within the cap.
func loadUnclaimed(path string) []string {
	data, err := os.ReadFile(path)
	if err != nil {
		return nil
	}
	var out []string
	for _, l := range strings.Split(string(data), "\n") {
		l = strings.TrimSpace(l)
		if l == "" || strings.HasPrefix(l, "#") {
			continue
		}
		out = append(out, strings.Fields(l)[0])
	}
	return out
}

// matchUnclaimed: an entry is an obligation name, a prefix ending in '*', or `<function>#safety:<kind>@<text>` which
// matches the safety obligations of that kind raised on a source line containing <text> (ordinals of safety obligations
// shift when code above them is edited, the text of the line does not).
func matchUnclaimed(list []string, name string, pos string, repo string) bool {
	for _, u := range list {
		if at := strings.Index(u, "@"); at > 0 {
			if strings.HasPrefix(name, u[:at]+":") && sourceLineContains(repo, pos, strings.ReplaceAll(u[at+1:], "\\s", " ")) {
				return true
			}
			continue
		}
		if strings.HasSuffix(u, "*") {
			if strings.HasPrefix(name, strings.TrimSuffix(u, "*")) {
				return true
			}
		} else if u == name {
			return true
		}
	}
	return false
}

var srcCache = map[string][]string{}

func sourceLineContains(repo, pos, text string) bool {
	i := strings.LastIndex(pos, ":")
	if i < 0 {
		return false
	}
	file, ln := pos[:i], 0
	fmt.Sscanf(pos[i+1:], "%d", &ln)
	if !filepath.IsAbs(file) {
		file = filepath.Join(repo, file)
	}
	lines, ok := srcCache[file]
	if !ok {
		data, _ := os.ReadFile(file)
		lines = strings.Split(string(data), "\n")
		srcCache[file] = lines
	}
	return ln >= 1 && ln <= len(lines) && strings.Contains(lines[ln-1], text)
}

func hasProp(ps []string, p string) bool {
	for _, x := range ps {
		if x == p {
			return true
		}
	}
	return false
}

func main() {
	if len(os.Args) < 2 {
		fmt.Fprintln(os.Stderr, "usage: govc check <PROP> [flags] | govc vc <func> | govc list")
		os.Exit(2)
	}
	switch os.Args[1] {
	case "check":
		os.Exit(cmdCheck(os.Args[2:]))
	case "vc":
		os.Exit(cmdVC(os.Args[2:]))
	case "list":
		os.Exit(cmdList(os.Args[2:]))
	}
	fmt.Fprintln(os.Stderr, "unknown command")
	os.Exit(2)
}

func cmdList(args []string) int {
	fs := flag.NewFlagSet("list", flag.ExitOnError)
	repo := fs.String("repo", "/repo", "repository root")
	fs.Parse(args)
	p, err := LoadProgram(*repo)
	if err != nil {
		fmt.Fprintln(os.Stderr, err)
		return 2
	}
	var keys []string
	for k := range p.Contracts {
		keys = append(keys, k)
	}
	sort.Strings(keys)
	for _, k := range keys {
		fn := p.FindFunc(k)
		fmt.Printf("%-70s props=%v found=%v\n", k, p.Contracts[k].Props, fn != nil)
	}
	return 0
}

// fastOnly (environment GOVC_FAST=1, for contract authors): stop after the short race and the sound weakenings
var fastOnly bool

func cmdVC(args []string) int {
	fs := flag.NewFlagSet("vc", flag.ExitOnError)
	repo := fs.String("repo", "/repo", "repository root")
	dump := fs.String("dump", "", "directory for SMT files")
	timeout := fs.Int("timeout", 10000, "solver timeout ms")
	only := fs.String("only", "", "regexp on obligation names")
	ssaDump := fs.Bool("ssa", false, "print SSA")
	verbose := fs.Bool("v", false, "verbose")
	failing := fs.Bool("f", false, "only failing")
	fs.Parse(args)
	fastOnly = os.Getenv("GOVC_FAST") == "1"
	p, err := LoadProgram(*repo)
	if err != nil {
		fmt.Fprintln(os.Stderr, err)
		return 2
	}
	dir := *dump
	if dir == "" {
		dir, _ = os.MkdirTemp("", "govc")
		defer os.RemoveAll(dir)
	} else {
		os.MkdirAll(dir, 0o755)
	}
	var re *regexp.Regexp
	if *only != "" {
		re = regexp.MustCompile(*only)
	}
	for _, key := range fs.Args() {
		fn := p.FindFunc(key)
		if fn == nil {
			fmt.Printf("function %s not found\n", key)
			continue
		}
		if *ssaDump {
			fn.WriteTo(os.Stdout)
		}
		res := RunFunctionAllGroups(p, fn)
		if res.Err != "" {
			fmt.Printf("INAPPLICABLE %s: %s\n", key, res.Err)
		}
		var scripts []string
		var vnames [][]string
		var obls []*Obligation
		for _, o := range res.Obls {
			if re != nil && !re.MatchString(o.Name) {
				continue
			}
			obls = append(obls, o)
			sc, vn := ObligationScript(o)
			scripts = append(scripts, sc)
			vnames = append(vnames, vn)
		}
		results := solveAll(obls, scripts, vnames, dir, *timeout, false)
		for _, r := range results {
			okr := r.R.Status == "unsat" && !r.O.Cover || r.O.Cover && (r.R.Status == "sat" || r.O.Kind == "vacuity" && r.R.Status != "unsat")
			if *failing && okr {
				continue
			}
			if !*verbose {
				fmt.Printf("%-8s %-7s %6dms %s  [%s]\n", r.R.Status, r.R.Solver, r.R.Ms, strings.TrimPrefix(r.O.Name, key), r.O.Pos)
				if !okr && r.O.Src != "" {
					fmt.Printf("         src: %s\n", r.O.Src)
				}
				continue
			}
			fmt.Printf("%-8s %-7s %6dms %s  [%s] %s\n", r.R.Status, r.R.Solver, r.R.Ms, r.O.Name, r.O.Pos, strings.Join(r.R.Tried, " "))
			if r.R.Status != "unsat" && r.O.Src != "" {
				fmt.Printf("         src: %s\n", r.O.Src)
			}
			if r.R.Status == "error" || r.R.Status == "unknown" {
				fmt.Printf("         out: %s\n", firstLines(r.R.Output, 4))
			}
			if r.R.Status == "sat" {
				fmt.Printf("         model: %v\n", parseGetValue(r.R.Output))
			}
			if r.R.Status != "unsat" && !r.O.Cover {
				if rr := tryReplay(p, r, "/tmp"); rr != nil {
					fmt.Printf("         replay: confirmed=%v inputs=%v real=%v model=%v (%v)\n", rr["confirmed"], rr["inputs"], rr["real_outputs"], rr["model_outputs"], rr["reason"])
				}
			}
		}
		if os.Getenv("GOVC_TAGS") != "" {
			for i, t := range typeTagList {
				fmt.Printf("tag %d = %s\n", i+1, t)
			}
		}
		for _, n := range res.Exec.notes {
			fmt.Println("note:", n)
		}
		for h := range res.Exec.Havocked {
			fmt.Println("havoc:", h)
		}
	}
	return 0
}

func solveAll(obls []*Obligation, scripts []string, valueNames [][]string, dir string, timeoutMs int, thorough bool) []*oblResult {
	return solveAllSkipping(obls, scripts, valueNames, dir, timeoutMs, thorough, nil)
}

// genMu serialises script generation (the term store and the printers are not thread-safe).
var genMu sync.Mutex

// tryVariants: sound weakenings of an undecided obligation - the last-index case split (both cases must be unsat, each on
// the full context or on a slice of it) and the sliced queries. Returns a result only when the obligation is proved.
func tryVariants(o *Obligation, full string, dir string, timeoutMs int, tried *[]string, ms *int64) *SolverResult {
	if o.Cover {
		return nil
	}
	genMu.Lock()
	splits := ObligationScriptsSplit(o)
	var sliced []string
	for _, h := range []int{sliceLoop, 1} {
		if sc := ObligationScriptSliced(o, h); sc != "" && sc != full {
			sliced = append(sliced, sc)
		}
	}
	genMu.Unlock()
	// all variants run side by side (a false goal costs every variant its whole budget, so they must not queue up)
	type job struct {
		kind string // "A", "B" (split cases) or "S" (slice)
		idx  int
		sc   string
	}
	var jobs []job
	if len(splits) == 2 {
		for c, variants := range splits {
			for v, sc := range variants {
				jobs = append(jobs, job{string(rune('A' + c)), v, sc})
			}
		}
	}
	for h, sc := range sliced {
		jobs = append(jobs, job{"S", h, sc})
	}
	if len(jobs) == 0 {
		return nil
	}
	type res struct {
		j job
		r *SolverResult
	}
	ch := make(chan res, len(jobs))
	for _, jb := range jobs {
		jb := jb
		go func() {
			ch <- res{jb, SolveFast(jb.sc, dir, fmt.Sprintf("%s.var%s%d", o.Name, jb.kind, jb.idx), timeoutMs)}
		}()
	}
	by := map[string]string{}
	var worst int64
	for range jobs {
		x := <-ch
		if x.r.Ms > worst {
			worst = x.r.Ms
		}
		*tried = append(*tried, fmt.Sprintf("var%s%d[%s]", x.j.kind, x.j.idx, strings.Join(x.r.Tried, " ")))
		if x.r.Status == "unsat" {
			if _, ok := by[x.j.kind]; !ok {
				by[x.j.kind] = x.r.Solver
			}
			// proved: do not wait for the variants that are still running (they end at their own time limit)
			if s, ok := by["S"]; ok {
				*ms += worst
				return &SolverResult{Status: "unsat", Solver: s + "(context slice)"}
			}
			if a, ok := by["A"]; ok {
				if b, ok := by["B"]; ok {
					*ms += worst
					return &SolverResult{Status: "unsat", Solver: a + "+" + b + "(last-index split)"}
				}
			}
		}
	}
	*ms += worst
	return nil
}

func solveAllSkipping(obls []*Obligation, scripts []string, valueNames [][]string, dir string, timeoutMs int, thorough bool, skip map[int]bool) []*oblResult {
	results := make([]*oblResult, len(obls))
	// obligations with optional extra assumptions are first tried without them
	plain := make([]string, len(obls))
	for i, o := range obls {
		if len(o.Extra) > 0 {
			plain[i], _ = ObligationScriptPlain(o)
		}
	}
	var wg sync.WaitGroup
	sem := make(chan struct{}, 16)
	for i := range obls {
		i := i
		if obls[i].Goal == True && !obls[i].Cover {
			results[i] = &oblResult{O: obls[i], R: &SolverResult{Status: "unsat", Solver: "trivial"}}
			continue
		}
		wg.Add(1)
		sem <- struct{}{}
		go func() {
			defer wg.Done()
			defer func() { <-sem }()
			o := obls[i]
			if skip[i] {
				// listed as not claimed: the quick tier only gives it the short race (it counts as discharged if that
				// already proves it) and does not spend the long chain on it
				rf := SolveFast(scripts[i], dir, o.Name+".fast", timeoutMs/3)
				if rf.Status != "unsat" {
					rf.Status, rf.Solver = "not-run", "unclaimed"
				}
				results[i] = &oblResult{O: o, R: rf}
				return
			}
			if o.Kind == "vacuity" {
				results[i] = &oblResult{O: o, R: SolveProbe(scripts[i], dir, o.Name)}
				return
			}
			var tried []string
			var ms int64
			finish := func(r *SolverResult) {
				r.Ms += ms
				r.Tried = append(tried, r.Tried...)
				results[i] = &oblResult{O: o, R: r}
			}
			if !thorough && !o.Cover {
				// stage 1: the three solvers race on the query for a short time (most obligations end here)
				short := timeoutMs / 3
				if plain[i] != "" {
					rp := SolveFast(plain[i], dir, o.Name+".plain", short)
					ms += rp.Ms
					tried = append(tried, rp.Tried...)
					if rp.Status == "unsat" {
						finish(&SolverResult{Status: "unsat", Solver: rp.Solver})
						return
					}
				}
				rf := SolveFast(scripts[i], dir, o.Name+".fast", short)
				ms += rf.Ms
				tried = append(tried, rf.Tried...)
				if rf.Status == "unsat" {
					finish(&SolverResult{Status: "unsat", Solver: rf.Solver})
					return
				}
				// stage 2: sound weakenings (case split on the last index, slices of the context)
				if rf.Status != "sat" {
					if rv := tryVariants(o, scripts[i], dir, timeoutMs/2, &tried, &ms); rv != nil {
						finish(rv)
						return
					}
				}
			}
			if fastOnly {
				finish(&SolverResult{Status: "unknown", Solver: "fast-only"})
				return
			}
			// stage 3: the full portfolio chain (last-resort members, model search for a counterexample)
			var r *SolverResult
			if thorough && plain[i] != "" {
				r = Solve(plain[i], dir, o.Name+".plain", timeoutMs/3, false, nil, true)
				if r.Status != "unsat" {
					r2 := Solve(scripts[i], dir, o.Name, timeoutMs, thorough, valueNames[i], o.Cover)
					r2.Ms += r.Ms
					r2.Tried = append(r.Tried, r2.Tried...)
					r = r2
				}
			} else {
				r = Solve(scripts[i], dir, o.Name, timeoutMs, thorough, valueNames[i], o.Cover)
			}
			if thorough && !o.Cover && r.Status != "unsat" && r.Status != "sat" {
				if rv := tryVariants(o, scripts[i], dir, timeoutMs, &tried, &ms); rv != nil {
					rv.Tried = append(r.Tried, rv.Tried...)
					rv.Ms += r.Ms
					r = rv
				}
			}
			finish(r)
		}()
	}
	wg.Wait()
	if fastOnly {
		return results
	}
	// retry phase: an obligation left undecided (unknown / timeout) while 48 solver processes share the machine is tried
	// again with little competition and three times the budget, so that load does not turn into an alarm
	sem2 := make(chan struct{}, 4)
	for i := range obls {
		i := i
		r := results[i]
		if r == nil || obls[i].Cover || r.R.Status == "unsat" || r.R.Status == "sat" || r.R.Status == "not-run" {
			continue
		}
		// a retry only makes sense when some solver ran out of time; when every member gave up by itself ("unknown"
		// before the cap) more time changes nothing
		if !strings.Contains(strings.Join(r.R.Tried, " "), ":timeout:") {
			continue
		}
		wg.Add(1)
		sem2 <- struct{}{}
		go func() {
			defer wg.Done()
			defer func() { <-sem2 }()
			var tried []string
			var ms int64
			if rv := tryVariants(obls[i], scripts[i], dir, 2*timeoutMs, &tried, &ms); rv != nil {
				rv.Ms = r.R.Ms + ms
				rv.Tried = append(r.R.Tried, tried...)
				results[i] = &oblResult{O: obls[i], R: rv}
				return
			}
			r2 := Solve(scripts[i], dir, obls[i].Name+".retry", 2*timeoutMs, thorough, valueNames[i], false)
			r2.Ms += r.R.Ms + ms
			r2.Tried = append(append(r.R.Tried, tried...), r2.Tried...)
			results[i] = &oblResult{O: obls[i], R: r2}
		}()
	}
	wg.Wait()
	// last phase: what is still undecided after a timeout is tried once more strictly alone (one obligation at a time, the
	// whole machine for its portfolio, four times the budget). Only when few are left: many undecided obligations are not
	// a load problem.
	var left []int
	for i := range obls {
		r := results[i]
		if r == nil || obls[i].Cover || r.R.Status == "unsat" || r.R.Status == "sat" || r.R.Status == "not-run" {
			continue
		}
		if strings.Contains(strings.Join(r.R.Tried, " "), ":timeout:") {
			left = append(left, i)
		}
	}
	if len(left) > 0 && len(left) <= 6 {
		for _, i := range left {
			r := results[i]
			var tried []string
			var ms int64
			if rv := tryVariants(obls[i], scripts[i], dir, 4*timeoutMs, &tried, &ms); rv != nil {
				rv.Ms = r.R.Ms + ms
				rv.Tried = append(r.R.Tried, tried...)
				results[i] = &oblResult{O: obls[i], R: rv}
				continue
			}
			r2 := Solve(scripts[i], dir, obls[i].Name+".alone", 4*timeoutMs, thorough, valueNames[i], false)
			if r2.Status == "unsat" {
				r2.Ms += r.R.Ms + ms
				r2.Tried = append(append(r.R.Tried, tried...), r2.Tried...)
				results[i] = &oblResult{O: obls[i], R: r2}
			}
		}
	}
	return results
}

// ---------- check ----------

type Evidence struct {
	PropertyID  string         `json:"property_id"`
	Tier        string         `json:"tier"`
	Seed        int            `json:"seed"`
	Level       string         `json:"level"`
	Coverage    map[string]any `json:"coverage"`
	Assumptions []string       `json:"assumptions"`
	WallS       float64        `json:"wall_s"`
	Violations  int            `json:"violations"`
}

func cmdCheck(args []string) int {
	fs := flag.NewFlagSet("check", flag.ExitOnError)
	repo := fs.String("repo", "/repo", "repository root")
	tier := fs.String("tier", "quick", "quick|thorough")
	out := fs.String("out", "/verif/evidence", "evidence directory")
	verif := fs.String("verif", "/verif", "verif root")
	partial := fs.String("partial", "", "write deductive part here instead of the final evidence (used by bin/check)")
	fs.Parse(args)
	if fs.NArg() < 1 {
		fmt.Fprintln(os.Stderr, "usage: govc check [flags] <PROP>")
		return 2
	}
	prop := fs.Arg(0)
	t0 := time.Now()
	seed := 0
	fmt.Sscanf(os.Getenv("VERIF_SEED"), "%d", &seed)
	p, err := LoadProgram(*repo)
	if err != nil {
		fmt.Fprintf(os.Stderr, "govc: cannot load %s: %v\n", *repo, err)
		return 2
	}
	timeout := 10000
	thorough := *tier == "thorough"
	if thorough {
		timeout = 60000
	}
	workDir, _ := os.MkdirTemp("", "govc-"+prop)
	defer os.RemoveAll(workDir)

	var obls []*Obligation
	var inapplicable []string
	var funcsUnder []string
	assumptions := map[string]bool{"T-SSA": true, "T-GOVC": true, "T-SMT": true}
	havocs := map[string]bool{}
	inlined := map[string]bool{}
	notes := []string{}
	var keys []string
	for k := range p.Contracts {
		keys = append(keys, k)
	}
	sort.Strings(keys)
	missing := []string{}
	for _, k := range keys {
		c := p.Contracts[k]
		relevant := hasProp(c.Props, prop)
		for _, en := range c.Ensures {
			if hasProp(en.Props, prop) {
				relevant = true
			}
		}
		for _, ls := range c.Loops {
			for _, inv := range ls.Invariants {
				if hasProp(inv.Props, prop) {
					relevant = true
				}
			}
		}
		if prop == "C08" && !c.Flags["trusted"] {
			relevant = true
		}
		if !relevant || c.Flags["trusted"] {
			continue
		}
		fn := p.FindFunc(k)
		if fn == nil {
			missing = append(missing, k)
			inapplicable = append(inapplicable, k+": function not found in the current tree (renamed or removed)")
			continue
		}
		funcsUnder = append(funcsUnder, k)
		res := RunFunctionAllGroups(p, fn)
		if res.Err != "" {
			inapplicable = append(inapplicable, k+": "+res.Err)
			continue
		}
		for a := range res.Exec.Assumed {
			assumptions[a] = true
		}
		for h := range res.Exec.Havocked {
			havocs[k+" calls "+h] = true
		}
		for h := range res.Exec.Inlined {
			inlined[h] = true
		}
		notes = append(notes, res.Exec.notes...)
		for _, o := range res.Obls {
			if hasProp(o.Props, prop) {
				obls = append(obls, o)
			}
		}
	}
	// lemmas
	for _, lm := range p.Lemmas {
		if !hasProp(lm.Props, prop) {
			continue
		}
		o, err := lemmaObligation(p, lm)
		if err != "" {
			inapplicable = append(inapplicable, "lemma "+lm.Name+": "+err)
			continue
		}
		obls = append(obls, o)
	}
	scripts := make([]string, len(obls))
	vnames := make([][]string, len(obls))
	for i, o := range obls {
		scripts[i], vnames[i] = ObligationScript(o)
	}
	unclaimed := loadUnclaimed(filepath.Join(*verif, "unclaimed_obligations.txt"))
	// quick tier: obligations listed as not claimed are generated (they count) but not sent to the solvers
	skipped := map[int]bool{}
	if !thorough {
		var o2 []*Obligation
		var s2 []string
		var v2 [][]string
		for i, o := range obls {
			if matchUnclaimed(unclaimed, o.Name, o.Pos, *repo) {
				skipped[i] = true
			}
		}
		_ = o2
		_ = s2
		_ = v2
	}
	results := solveAllSkipping(obls, scripts, vnames, workDir, timeout, thorough, skipped)

	known := loadKnown(filepath.Join(*verif, "known_findings.jsonl"))
	unclaimedHit := 0
	var unclaimedNames []string
	discharged := 0
	var solverMs int64
	violations := 0
	knownHit := 0
	var lines []string
	var perObl []map[string]any
	engineError := false
	for _, r := range results {
		solverMs += r.R.Ms
		entry := map[string]any{"name": r.O.Name, "kind": r.O.Kind, "status": r.R.Status, "backend": r.R.Solver, "ms": r.R.Ms}
		if r.O.Pos != "" {
			entry["pos"] = r.O.Pos
		}
		if r.O.Src != "" {
			entry["clause"] = r.O.Src
		}
		ok := r.R.Status == "unsat"
		if r.O.Cover {
			ok = r.R.Status == "sat"
			if r.R.Status == "unknown" {
				ok = true // a cover that the solvers cannot decide is not an alarm
				entry["status"] = "cover-undecided"
			}
		}
		if r.R.Disagree {
			engineError = true
			lines = append(lines, fmt.Sprintf("ENGINE-ERROR: solvers disagree on %s (%s)", r.O.Name, r.R.Solver))
		}
		if ok {
			discharged++
			perObl = append(perObl, entry)
			continue
		}
		// failed: known finding?
		isKnown := false
		for _, k := range known {
			if k.Property == prop && k.Obligation == r.O.Name {
				isKnown = true
				lines = append(lines, fmt.Sprintf("KNOWN-FINDING: property=%s %s (%s)", prop, k.What, r.O.Name))
			}
		}
		if isKnown {
			knownHit++
			entry["known_finding"] = true
			perObl = append(perObl, entry)
			continue
		}
		if matchUnclaimed(unclaimed, r.O.Name, r.O.Pos, *repo) {
			// listed as not claimed (the solvers do not carry it reliably): undecided, neither proved nor a violation
			unclaimedHit++
			unclaimedNames = append(unclaimedNames, r.O.Name)
			entry["unclaimed"] = true
			lines = append(lines, fmt.Sprintf("UNDECIDED: property=%s obligation=%s is not claimed (listed in unclaimed_obligations.txt) status=%s", prop, r.O.Name, r.R.Status))
			perObl = append(perObl, entry)
			continue
		}
		violations++
		rp := writeReplay(*verif, prop, r, p)
		suffix := ""
		if !rp.Confirmed {
			suffix = " no-failing-input-found"
		}
		lines = append(lines, fmt.Sprintf("VIOLATION property=%s replay=%s obligation=%s status=%s%s", prop, rp.Path, r.O.Name, r.R.Status, suffix))
		entry["replay"] = rp.Path
		perObl = append(perObl, entry)
	}
	level := "proof"
	if len(inapplicable) > 0 || discharged+knownHit < len(obls) || knownHit > 0 || unclaimedHit > 0 {
		level = "other"
	}
	var asm []string
	for a := range assumptions {
		asm = append(asm, a)
	}
	sort.Strings(asm)
	var hv, inl []string
	for h := range havocs {
		hv = append(hv, h)
	}
	sort.Strings(hv)
	for h := range inlined {
		inl = append(inl, h)
	}
	sort.Strings(inl)
	samples := []any{}
	for i, e := range perObl {
		if i < 6 {
			samples = append(samples, e)
		}
	}
	cov := map[string]any{
		"obligations":              len(obls),
		"discharged":               discharged,
		"known_findings":           knownHit,
		"unclaimed_undecided":      unclaimedNames,
		"checker_cmd":              fmt.Sprintf("govc check --tier %s --repo %s %s (go/ssa VC generator; portfolio z3-new 5.1.0 / cvc5 1.0 / z3 4.8.12, %d ms cap)", *tier, *repo, prop, timeout),
		"trusted_base":             []string{"go/types+go/ssa (x/tools v0.29.0)", "govc VC generator and contract translator (/verif/govc)", "SMT solvers z3-new 5.1.0, cvc5 1.0.x, z3 4.8.12", "library models listed under assumptions"},
		"functions_under_contract": funcsUnder,
		"per_obligation":           perObl,
		"solver_time_s":            float64(solverMs) / 1000,
		"inapplicable":             inapplicable,
		"unmodelled_calls_havocked": hv,
		"inlined_helpers":          inl,
		"samples":                  samples,
		"notes":                    dedupe(notes),
		"explanation":              fmt.Sprintf("deductive part: %d obligations generated from the current tree for property %s, %d discharged, %d known findings, %d inapplicable functions", len(obls), prop, discharged, knownHit, len(inapplicable)),
	}
	ev := &Evidence{PropertyID: prop, Tier: *tier, Seed: seed, Level: level, Coverage: cov, Assumptions: asm, WallS: time.Since(t0).Seconds(), Violations: violations}
	dst := filepath.Join(*out, prop+".json")
	if *partial != "" {
		dst = *partial
	}
	os.MkdirAll(filepath.Dir(dst), 0o755)
	data, _ := json.MarshalIndent(ev, "", " ")
	os.WriteFile(dst, data, 0o644)
	for _, l := range lines {
		fmt.Println(l)
	}
	for _, ia := range inapplicable {
		// not a violation (a refactoring that renames what a contract refers to is not a property change), but the
		// function is no longer verified: say so where it is seen
		fmt.Printf("INAPPLICABLE: property=%s %s\n", prop, ia)
	}
	fmt.Printf("govc: property=%s tier=%s functions=%d obligations=%d discharged=%d known=%d violations=%d inapplicable=%d solver=%.1fs wall=%.1fs\n",
		prop, *tier, len(funcsUnder), len(obls), discharged, knownHit, violations, len(inapplicable), float64(solverMs)/1000, time.Since(t0).Seconds())
	for _, ia := range inapplicable {
		fmt.Println("govc: inapplicable:", ia)
	}
	if engineError {
		return 2
	}
	if len(obls) == 0 && len(inapplicable) == 0 {
		fmt.Println("govc: ENGINE-ERROR: no obligations generated for", prop)
		return 2
	}
	if violations > 0 {
		return 1
	}
	return 0
}

func dedupe(xs []string) []string {
	m := map[string]bool{}
	var out []string
	for _, x := range xs {
		if !m[x] {
			m[x] = true
			out = append(out, x)
		}
	}
	return out
}

// lemmaObligation: a closed formula proved on its own, in an arbitrary heap state.
func lemmaObligation(p *Program, lm *Axiom) (o *Obligation, errStr string) {
	defer func() {
		if r := recover(); r != nil {
			if u, ok := r.(Unsupported); ok {
				errStr = u.Msg
				return
			}
			panic(r)
		}
	}()
	e := &Exec{P: p, vals: map[ssa.Value]Val{}, counters: map[string]int{}, Inlined: map[string]bool{}, Havocked: map[string]bool{}, Assumed: map[string]bool{}}
	st := NewState("lemma")
	e.entry = st
	e.curState = st
	e.curReach = True
	var pkg *ssa.Package
	for path, sp := range p.Pkgs {
		if strings.HasPrefix(path, repoModule) && sp.Pkg.Name() == lm.Pkg {
			pkg = sp
		}
	}
	if pkg == nil {
		return nil, "package not found"
	}
	env := &Env{e: e, st: st, old: st, names: map[string]cval{}, pkg: pkg.Pkg}
	// package axioms are available to lemmas
	for _, ax := range p.Axioms {
		if ax.Pkg == lm.Pkg {
			e.assumes = append(e.assumes, e.evalContractBool(ax.Expr, env, "axiom "+ax.Name))
		}
	}
	t := e.evalContractBool(lm.Expr, env, "lemma "+lm.Name)
	return &Obligation{Name: lm.Pkg + ".lemma:" + lm.Name, Kind: "lemma", Fn: "lemma " + lm.Name, Props: lm.Props, NAssume: len(e.assumes), Goal: t, Src: lm.Src, exec: e}, ""
}

// ---------- replay files ----------

type replayInfo struct {
	Path      string
	Confirmed bool
}

func writeReplay(verif, prop string, r *oblResult, p *Program) replayInfo {
	dir := filepath.Join(verif, "replays", prop)
	if rd := os.Getenv("VERIF_REPLAY_DIR"); rd != "" {
		dir = filepath.Join(rd, prop)
	}
	os.MkdirAll(dir, 0o755)
	safe := strings.NewReplacer("/", "_", "(", "", ")", "", "*", "P", " ", "", ":", "_", "#", "-").Replace(r.O.Name)
	path := filepath.Join(dir, safe+".json")
	rep := map[string]any{
		"property":   prop,
		"obligation": r.O.Name,
		"kind":       r.O.Kind,
		"clause":     r.O.Src,
		"position":   r.O.Pos,
		"status":     r.R.Status,
		"solvers":    r.R.Tried,
		"solver_output": firstLines(r.R.Output, 200),
		"replayed_on_real_code": false,
		"note": "obligation generated from the current tree failed; see DESIGN.md 2.5. no-failing-input-found unless replayed_on_real_code is true",
	}
	smt := filepath.Join(dir, safe+".smt2")
	os.WriteFile(smt, []byte(r.R.Script), 0o644)
	rep["smt_file"] = smt
	info := replayInfo{Path: path}
	if rr := tryReplay(p, r, verif); rr != nil {
		rep["replay"] = rr
		if ok, _ := rr["confirmed"].(bool); ok {
			rep["replayed_on_real_code"] = true
			info.Confirmed = true
		}
	}
	data, _ := json.MarshalIndent(rep, "", " ")
	os.WriteFile(path, data, 0o644)
	return info
}

func init() {
	debugLoops = os.Getenv("GOVC_DEBUG") != ""
}

// contractGroups lists the proof groups that occur in a function's own contract.
func contractGroups(c *FuncContract) map[string]bool {
	gs := map[string]bool{}
	if c == nil {
		return gs
	}
	add := func(cs []*Clause) {
		for _, x := range cs {
			if x.Group != "" {
				gs[x.Group] = true
			}
		}
	}
	add(c.Requires)
	add(c.Ensures)
	add(c.Assumes)
	for _, ls := range c.Loops {
		add(ls.Invariants)
	}
	return gs
}

// RunFunctionAllGroups runs the main pass and one pass per proof group that the function's contract or a callee's
// preconditions mention; the obligations of all passes are returned together.
func RunFunctionAllGroups(p *Program, fn *ssa.Function) *ExecResult {
	activeGroup = ""
	res := RunFunction(p, fn)
	if res.Err != "" {
		return res
	}
	gs := contractGroups(p.ContractOf(fn))
	for g := range res.Exec.GroupsSeen {
		gs[g] = true
	}
	var names []string
	for g := range gs {
		names = append(names, g)
	}
	sort.Strings(names)
	for _, g := range names {
		activeGroup = g
		r2 := RunFunction(p, fn)
		activeGroup = ""
		if r2.Err != "" {
			res.Err = "group " + g + ": " + r2.Err
			return res
		}
		res.Obls = append(res.Obls, r2.Obls...)
		for a := range r2.Exec.Assumed {
			res.Exec.Assumed[a] = true
		}
	}
	return res
}
